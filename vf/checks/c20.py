"""
C20 User-defined functions never disturb the caller's variables.

Generated programs define 2..8 DEF FN functions (0..4 parameters of all types, bodies over
parameters, globals, string functions and other FNs, bodies that fail, self/mutually recursive
ones), assign a distinctive value to every variable named like a parameter (plus arrays of the
same names) and stop.  Each call is then bracketed by two full variable dumps taken through the
public API (Session.get_variable for every scalar and array the session knows):

  frame oracle   every variable equal before/after, whether the call returned or raised;
  value oracle   a small reference evaluator (vf/gen/c20_fn.py Model, Fractions/bytes) gives the
                 expected result where exact arithmetic pins it; for "projection" functions
                 (body = one parameter) the expected result is the argument converted by a plain
                 assignment to a variable of the parameter's type (differential, bytes-exact);
  error oracle   string<->number argument: 13; integer parameter/result out of range: 6;
                 self / mutual recursion: 7; nothing else is asserted about error codes.

Calls are made from direct mode (expression API, PRINT, LET), from inside the running program
between STOP statements (with and without an active ON ERROR handler), and under tight memory
(CLEAR ,n sized from FRE) so that string collections happen during evaluation.
"""
import random
import time
from fractions import Fraction

from ..models import rnum
from ..gen import c20_fn as fg

META = {
    'property_id': 'C20',
    'technique': 'frame-condition snapshot (full variable dump before/after each FN call, public API) + reference evaluator',
    'level': 'exploration',
    'level_text': (
        'Runtime oracle on real sessions: every generated FN call is bracketed by complete variable dumps; results are '
        'compared with an independent evaluator of the generated bodies, and parameter conversion with the session\'s own '
        'LET conversion. Directed core (identity bodies of every type and dressing, self/mutual/3-cycle recursion, '
        'string parameters under tight memory) runs in both tiers; generated programs add volume.'),
    'level_note': (
        'Trusted: harness, Session.get_variable as the observation of a variable, names enumerated from the session\'s '
        'scalar/array tables (read-only). Not pinned, hence not generated or not judged: two parameters with one name; '
        'changing DEFtype between definition and call; value/type after a softly handled float error (only the frame '
        'oracle applies; result may be a value or error 11/6); under tight memory errors 7/14 are accepted as alternative '
        'outcomes (frame oracle still applies). A variable that did not exist before a call counts as unchanged if it reads '
        'as 0 / "" afterwards. Non-parameter variables referenced by a callee are looked up in the caller\'s current '
        'scope (parameters are variables that hold the argument for the duration of the evaluation).'),
    'rule': ('case = (program text, call text, call form); distinct by that triple; non-trivial = the call was executed '
             'between two complete dumps'),
    'design_ref': 'DESIGN.md section 4 C20',
    'assumptions': ['Session.get_variable reports the variable\'s value', 'Python Fractions'],
    'require_counters': {'any': ['calls_returned', 'calls_raised', 'recursion_error_7_seen', 'conversion_error_13_seen',
                                 'conversion_error_6_seen', 'soft_float_error_calls', 'shadowed_parameter_calls',
                                 'collections_during_fn_evaluation', 'projection_values_checked', 'model_values_checked',
                                 'in_program_trapped_errors', 'retyped_parameter_values_checked']},
    'timeout': {'quick': 900, 'thorough': 10800},
}


def plan(tier, seed):
    shards = [{'kind': 'directed'}]
    if tier == 'quick':
        for i in range(8):
            shards.append({'kind': 'direct', 'programs': 160, 'calls': 24, 'part': i})
        for i in range(3):
            shards.append({'kind': 'inprog', 'programs': 140, 'calls': 10, 'part': i})
        for i in range(4):
            shards.append({'kind': 'tight', 'programs': 140, 'calls': 20, 'part': i})
    else:
        for i in range(24):
            shards.append({'kind': 'direct', 'programs': 420, 'calls': 24, 'part': i})
        for i in range(8):
            shards.append({'kind': 'inprog', 'programs': 380, 'calls': 10, 'part': i})
        for i in range(12):
            shards.append({'kind': 'tight', 'programs': 380, 'calls': 20, 'part': i})
    return shards


# ---------------------------------------------------------------------------------------------------

class Obs(object):
    """Observation helpers around one Box."""

    def __init__(self, box, res, harness):
        self.box = box
        self.res = res
        self.harness = harness
        from pcbasic.basic.base import error
        self.BASICError = error.BASICError
        self.collections = 0
        strings = box.impl.strings
        orig = strings.collect_garbage

        def counting(*a, **k):
            self.collections += 1
            return orig(*a, **k)
        strings.collect_garbage = counting
        self.soft = 0
        handler = box.impl.values.error_handler
        orig_h = handler.handle

        def counting_handle(e):
            self.soft += 1
            return orig_h(e)
        handler.handle = counting_handle

    def dump(self):
        """{name: value} of every scalar and array, values through the public API."""
        box = self.box
        d = {}
        for name in list(box.impl.scalars):
            name = bytes(name)
            if name[0] >= 128:
                continue                      # DEF FN pointer records, not variables
            d[name.decode('latin-1')] = box.get(name)
        for name in list(box.impl.arrays):
            name = bytes(name)
            d[name.decode('latin-1') + '()'] = box.get(name + b'()')
        return d

    def evalx(self, text):
        impl = self.box.impl
        BE = self.BASICError

        def do():
            try:
                tokens = impl.tokeniser.tokenise_line(b'?' + text)
                tokens.read(2)
                val = impl.parser.parse_expression(tokens)
                sig = val.sigil.decode('latin-1')
                if sig == '$':
                    return ('ok', sig, bytes(val.to_str()))
                return ('ok', sig, bytes(val.to_bytes()))
            except BE as e:
                return ('err', e.err)
        return self.harness.guarded(do)[1]


def _default(name):
    if name.endswith('()'):
        return None
    return b'' if name.endswith('$') else 0


def diff_dumps(before, after, ignore=()):
    """[(name, before, after)] for every variable whose value differs (missing = default)."""
    out = []
    for n in sorted(set(before) | set(after)):
        if n in ignore:
            continue
        b = before.get(n, _default(n))
        a = after.get(n, _default(n))
        if n.endswith('()') and (b is None or a is None):
            if (b or a) and any(x not in (0, b'', 0.0) for x in _flat(b or a)):
                out.append((n, b, a))
            continue
        # a variable created by the call counts as unchanged if it reads as 0 / "" (the default has no type of its own)
        if a != b or (n in before and n in after and type(a) != type(b)):
            out.append((n, b, a))
    return out


def _flat(x):
    if isinstance(x, list):
        for y in x:
            for z in _flat(y):
                yield z
    else:
        yield x


def _to_model(v):
    if isinstance(v, bytes):
        return v
    return Fraction(v)


def _params_reachable(model, fname, seen=None):
    """Full names of the parameters of fname and of every function its body can call."""
    seen = seen if seen is not None else set()
    fname = fg.full_name(fname, model.deftype)
    if fname in seen or fname not in model.fns:
        return set()
    seen.add(fname)
    f = model.fns[fname]
    out = set(fg.full_name(p, model.deftype) for p in f['params'])
    stack = [f['body']]
    while stack:
        a = stack.pop()
        if a[0] == 'FN':
            out |= _params_reachable(model, a[1], seen)
            stack.extend(a[2])
        else:
            stack.extend(x for x in a[1:] if isinstance(x, list))
    return out


class Session20(object):
    """One generated program in one Box + the oracles for its calls."""

    def __init__(self, obs, case, lines):
        self.obs = obs
        self.case = case
        self.lines = lines
        self.model = fg.Model(case)
        self.tight = case.get('tight', False)

    def expected(self, call, scope):
        m = self.model
        a = self._expected(call, scope)
        if not m.retyped:
            return a
        # DEFtype changed between DEF FN and the call: the statement does not say which of the two types the argument is
        # converted to; whichever it is, the BODY must see the argument (not the caller's variable of that name)
        if any(kw == 'DEFSTR' for kw, _ in self.case.get('deftypes2', [])):
            return ('unknown',)
        m.convert_by_def_type = True
        try:
            b = self._expected(call, scope)
        finally:
            m.convert_by_def_type = False
        if a == b:
            return a
        if a[0] == 'value' and b[0] == 'value':
            return ('values', [a[1], b[1]])
        return ('unknown',)

    def _expected(self, call, scope):
        m = self.model
        try:
            return ('value', m.call(call['fn'], call['args'], scope))
        except fg.ModelError as e:
            return ('error', e.code)
        except fg.Soft as e:
            return ('soft', e.code)
        except fg.Unknown:
            return ('unknown',)

    def projection(self, call):
        """For body == one parameter: (param full name, index, LET target name) or None."""
        m = self.model
        f = m.fns[fg.full_name(call['fn'], m.deftype)]
        if f.get('kind') != 'proj':
            return None
        if m.retyped and fg.sigil_of(f['proj'], m.deftype) != fg.sigil_of(f['proj'], m.deftype_def):
            return None                   # judged by the two-reading reference values instead
        idx = f['params'].index(f['proj'])
        ty = fg.sigil_of(f['proj'], m.deftype)
        return fg.full_name(f['proj'], m.deftype), idx, 'ZC' + ty

    def aliased_argument(self, call):
        """An argument is a plain variable that is also the variable of an EARLIER parameter of the called function."""
        m = self.model
        seen = set()

        def site(fname, args):
            fname = fg.full_name(fname, m.deftype)
            if fname not in m.fns:
                return False
            f = m.fns[fname]
            pn = [fg.full_name(p, m.deftype) for p in f['params']]
            for i, a in enumerate(args):
                while a[0] in ('PAREN', 'UPLUS'):
                    a = a[1]
                if a[0] == 'V' and fg.full_name(a[1], m.deftype) in pn[:i]:
                    return True
            for a in args:
                if nested(a):
                    return True
            if fname in seen:
                return False
            seen.add(fname)
            return nested(f['body'])

        def nested(a):
            if a[0] == 'FN':
                return site(a[1], a[2])
            return any(nested(x) for x in a[1:] if isinstance(x, list))
        return site(call['fn'], call['args'])

    def judge(self, call, got, before, after, exp, proj_exp, ignore, where, during):
        """got: ('ok', sigil, bytes) | ('err', code) | ('okprint', output)."""
        res = self.obs.res
        m = self.model
        fname = fg.full_name(call['fn'], m.deftype)
        f = m.fns[fname]
        text = fg.call_text(call)
        case = {'program': self.lines, 'call': text, 'form': call['form'], 'where': where,
                'expected': repr(exp), 'observed': repr(got)}
        res.case((b'\n'.join(self.lines), text, call['form'], where))
        raised = got[0] == 'err'
        res.count('calls_raised' if raised else 'calls_returned')
        if during.get('collections'):
            res.count('collections_during_fn_evaluation', during['collections'])
        if during.get('soft'):
            res.count('soft_float_error_calls')
        pnames = _params_reachable(m, fname)
        if any(before.get(p, _default(p)) not in (0, b'', 0.0) for p in pnames):
            res.count('shadowed_parameter_calls')
        # ---- frame oracle --------------------------------------------------------------------------
        changed = diff_dumps(before, after, ignore)
        if changed:
            how = 'on-error' if raised else 'on-return'
            for n, b, a in changed[:3]:
                cls = 'parameter-variable' if n in pnames else ('array' if n.endswith('()') else 'other-variable')
                res.violation('frame:%s-changed:%s' % (cls, how),
                              '%s: %s was %r before and %r after (%s)' % (text, n, b, a, 'raised %r' % (got,) if raised else 'returned'),
                              dict(case, changed=[[n, repr(b), repr(a)] for n, b, a in changed]))
        # ---- error / value oracle --------------------------------------------------------------------
        alt_errors = (7, 14) if self.tight else ()
        # under tight memory, running out of string space while the arguments are built may come first
        if raised and got[1] in alt_errors and not (exp[0] == 'error' and exp[1] == 7 and got[1] == 7):
            res.count('tight_memory_errors')
            return
        if exp[0] == 'error':
            code = exp[1]
            if not raised:
                key = {7: 'recursion:no-out-of-memory-error', 13: 'conversion:type-mismatch-not-raised',
                       6: 'conversion:overflow-not-raised'}.get(code, 'error-not-raised:%d' % code)
                res.violation(key, '%s returned %r, expected error %d' % (text, got, code), case)
            elif got[1] != code:
                key = {7: 'recursion:wrong-error', 13: 'conversion:wrong-error-for-type-mismatch',
                       6: 'conversion:wrong-error-for-overflow'}.get(code, 'error-class:%d' % code)
                res.violation(key, '%s raised %d, expected %d' % (text, got[1], code), case)
            else:
                if code == 7:
                    res.count('recursion_error_7_seen')
                elif code == 13:
                    res.count('conversion_error_13_seen')
                elif code == 6:
                    res.count('conversion_error_6_seen')
                else:
                    res.count('body_error_%d_seen' % code)
            return
        if exp[0] == 'soft':
            # message-and-continue with the maximum value (which may then overflow an integer result), or the hard error
            if raised and got[1] not in (exp[1], 6):
                res.violation('error-class:float-%d' % exp[1], '%s raised %d, expected a softly handled or hard error %d'
                              % (text, got[1], exp[1]), case)
            return
        single_param = len(f['params']) == 1
        if raised:
            if exp[0] == 'value' or (proj_exp is not None and proj_exp[0] == 'ok' and single_param):
                res.violation('error-on-valid-call:%d' % got[1], '%s raised %d, expected %r' % (text, got[1], exp), case)
            elif proj_exp is not None and proj_exp[0] == 'err' and single_param:
                if proj_exp[1] != got[1]:
                    res.violation('conversion:call-and-assignment-errors-differ',
                                  '%s raised %d, assigning the argument raises %d' % (text, got[1], proj_exp[1]), case)
                else:
                    res.count('conversion_error_%d_seen' % got[1])
            return
        if got[0] != 'ok':
            return                        # PRINT form: only frame + error class judged
        sig, raw = got[1], got[2]
        if sig != fname[-1]:
            res.violation('result-type', '%s has type %s, function is %s' % (text, sig, fname), case)
            return
        proj = self.projection(call)
        if proj is not None and proj_exp is not None and proj_exp[0] == 'ok':
            res.count('projection_values_checked')
            if (sig, raw) != (proj_exp[1], proj_exp[2]):
                pname = proj[0]
                caller = before.get(pname, _default(pname))
                mine = raw if sig == '$' else rnum.decode(raw)
                if self.aliased_argument(call):
                    res.violation('argument-variable-overwritten-by-earlier-parameter',
                                  '%s returned %r; the argument variable is also an earlier parameter of the function, '
                                  'whose binding changed the argument (expected %r)' % (text, mine, proj_exp[2]), case)
                elif (sig == '$' and mine == caller) or (sig != '$' and mine == Fraction(caller)):
                    res.violation('param-identity-body-returns-caller-value',
                                  '%s returned %r = the caller\'s %s, not the converted argument %r'
                                  % (text, mine, pname, proj_exp[2]), case)
                else:
                    res.violation('value:parameter-is-not-the-converted-argument',
                                  '%s returned %r, the argument assigned to a %s variable is %r'
                                  % (text, raw, sig, proj_exp[2]), case)
            return
        if exp[0] == 'values':
            res.count('model_values_checked')
            res.count('retyped_parameter_values_checked')
            mine = raw if sig == '$' else rnum.decode(raw)
            if mine not in exp[1]:
                res.violation('value:retyped-parameter-not-the-argument',
                              '%s returned %r after the DEFtype of a parameter letter changed; the argument converted to the '
                              'old or the new type gives %r' % (text, mine, exp[1]), case)
            return
        if exp[0] == 'value':
            res.count('model_values_checked')
            if m.retyped:
                res.count('retyped_parameter_values_checked')
            want = exp[1]
            mine = raw if sig == '$' else rnum.decode(raw)
            if mine != want:
                if self.aliased_argument(call):
                    res.violation('argument-variable-overwritten-by-earlier-parameter',
                                  '%s returned %r, reference value %r; an argument is a variable that is also an earlier '
                                  'parameter of the function' % (text, mine, want), case)
                else:
                    res.violation('value:function-result', '%s returned %r, reference value %r' % (text, mine, want), case)


def _internal(res, e, case):
    """A host exception escaped; an unbounded DEF FN recursion additionally gets one stable mechanism key."""
    res.violation(e.key, str(e), case)
    if 'RecursionError' in e.key:
        res.violation('recursion:python-recursion-error-instead-of-out-of-memory', str(e)[:300], case)


def _scope_from_dump(d):
    return {n: _to_model(v) for n, v in d.items() if not n.endswith('()')}


def run_direct(obs, case, lines, sample=False):
    """Calls from direct mode after the program has run to END."""
    box, res, harness = obs.box, obs.res, obs.harness
    s20 = Session20(obs, case, lines)
    for ci, call in enumerate(case['calls']):
        text = fg.call_text(call).encode('latin-1')
        fname = fg.full_name(call['fn'], s20.model.deftype)
        try:
            proj = s20.projection(call)
            proj_exp = None
            if proj is not None:
                # the argument converted by a plain assignment to a variable of the parameter's type
                argtext = fg.body_text(call['args'][proj[1]]).encode('latin-1')
                out = box.ex(proj[2].encode() + b'=' + argtext)
                code, _ = harness.err_of(out)
                proj_exp = ('err', code) if code else obs.evalx(proj[2].encode())
            before = obs.dump()
            exp = s20.expected(call, _scope_from_dump(before))
            c0, s0 = obs.collections, obs.soft
            ignore = ()
            if call['form'] == 'nested':
                # the call is an operand of a larger expression (only used where an error is the expected outcome)
                got = obs.evalx(fg.nested_text(call, fname[-1] == '$').encode('latin-1'))
                if got[0] == 'ok':
                    got = ('okprint', repr(got).encode())
            elif call['form'] == 'eval':
                got = obs.evalx(text)
            elif call['form'] == 'print':
                out = box.ex(b'PRINT ' + text + b';')
                code, _ = harness.err_of(out)
                got = ('err', code) if code else ('okprint', out)
            else:
                target = 'ZR' + fname[-1]
                out = box.ex(target.encode() + b'=' + text)
                code, _ = harness.err_of(out)
                ignore = (target,)
                got = ('err', code) if code else None
            during = {'collections': obs.collections - c0, 'soft': obs.soft - s0}
            after = obs.dump()
            if got is None:
                got = obs.evalx(('ZR' + fname[-1]).encode())
        except harness.Internal as e:
            _internal(res, e, {'program': lines, 'call': text})
            return
        s20.judge(call, got, before, after, exp, proj_exp, ignore, 'direct', during)
        if sample and ci < 2:
            res.sample({'program': lines, 'call': text, 'form': call['form'], 'observed': repr(got), 'expected': repr(exp),
                        'variables_dumped': len(before)})


def run_inprog(obs, case, base_lines, trap):
    """Calls executed by the running program between STOP statements; dumps taken at the STOPs."""
    box, res, harness = obs.box, obs.res, obs.harness
    m = fg.Model(case)
    extra = []
    n = 8000
    if trap:
        extra.append('%d ON ERROR GOTO 8995' % n)
        n += 2
    sites = []
    for call in case['calls']:
        fname = fg.full_name(call['fn'], m.deftype)
        text = fg.call_text(call)
        form = call['form']
        if form == 'nested':
            stmt = 'PRINT %s;' % fg.nested_text(call, fname[-1] == '$')
            target = None
        elif form == 'print':
            stmt = 'PRINT %s;' % text
            target = None
        elif form == 'eval' and fname[-1] != '$':
            stmt = 'IF %s=0 THEN REM' % text
            target = None
        else:
            target = 'ZR' + fname[-1]
            stmt = '%s=%s' % (target, text)
        extra.append('%d STOP' % n)
        extra.append('%d ZE%%=0:%s' % (n + 2, stmt))
        sites.append((n, n + 2, call, target))
        n += 4
    extra.append('%d STOP' % n)
    last_stop = n
    extra.append('8990 GOTO 9990')
    extra.append('8995 ZE%=ERR:RESUME NEXT')
    lines = fg.program_lines(case, extra)
    s20 = Session20(obs, case, lines)
    try:
        out = box.run(lines)
    except harness.Internal as e:
        res.violation(e.key, str(e), {'program': lines})
        return
    code, line = harness.err_of(out)
    if code != -2:
        # the definitions/assignments themselves failed (e.g. memory): not a case
        res.count('programs_not_started')
        return
    at_stop = True
    for i, (stopline, callline, call, target) in enumerate(sites):
        text = fg.call_text(call)
        try:
            before = obs.dump()
            exp = s20.expected(call, _scope_from_dump(before))
            c0, s0 = obs.collections, obs.soft
            # after an untrapped error the program is re-entered at the call line itself (variables are kept)
            out = box.ex(b'CONT' if at_stop else b'GOTO %d' % callline)
            during = {'collections': obs.collections - c0, 'soft': obs.soft - s0}
            after = obs.dump()
        except harness.Internal as e:
            _internal(res, e, {'program': lines, 'call': text})
            return
        code, line = harness.err_of(out)
        ignore = set(['ZE%'])
        if target:
            ignore.add(target)
        if code == -2:
            # reached the next STOP; a trapped error shows in ZE%
            ze = after.get('ZE%', 0)
            if ze:
                got = ('err', ze)
                res.count('in_program_trapped_errors')
            elif target:
                try:
                    got = obs.evalx(target.encode())
                except harness.Internal as e:
                    _internal(res, e, {'program': lines, 'call': text})
                    return
            else:
                got = ('okprint', out)
        elif code > 0:
            got = ('err', code)
            res.count('in_program_untrapped_errors')
        else:
            res.violation('in-program:unexpected-stop', 'CONT into %d gave %r' % (callline, out), {'program': lines})
            return
        # soft errors become hard ones while a handler is active: both accepted by the 'soft' expectation
        s20.judge(call, got, before, after, exp, None, ignore, 'program-trap' if trap else 'program', during)
        at_stop = code == -2
    return


def tighten(obs, case, harness, slack):
    """Program text with a CLEAR ,n first line that leaves about `slack` free bytes after the program has run."""
    box = obs.box
    lines = fg.program_lines(case)
    out = box.run(lines)
    if harness.err_of(out)[0]:
        return None
    free = box.ev(b'FRE(0)')
    if free is None:
        return None
    total = int(65534 - free + slack + 10)
    return [b'1 CLEAR ,%d' % total] + lines


# ---------------------------------------------------------------------------------------------------
# directed core

def directed_cases():
    K, KS = fg._k, fg._ks
    cases = []
    # identity bodies of every type and dressing, parameter shadowing a caller variable
    fns, calls, gl = [], [], []
    letters = iter('ABCDEFGHIJKLMNOPQRSTUVW')
    for ty, arg, gval in (('%', K(3), 77), ('!', K(2.5), 5.0), ('#', K(4), 9.0), ('$', KS('arg'), 'glob')):
        for dress in ('V', 'PAREN', 'UPLUS', 'PLUS0'):
            p = 'X' + ty
            if dress == 'V':
                body = ['V', p]
            elif dress == 'PAREN':
                body = ['PAREN', ['V', p]]
            elif dress == 'UPLUS':
                body = ['UPLUS', ['V', p]]
            else:
                body = ['CAT', ['V', p], KS('')] if ty == '$' else ['+', ['V', p], K(0)]
            name = 'FN' + next(letters) + ty
            fns.append({'name': name, 'params': [p], 'body': body, 'kind': 'proj', 'proj': p})
            for form in ('eval', 'print', 'let'):
                calls.append({'fn': name, 'args': [arg], 'form': form})
        gl.append(['X' + ty, gval])
    # rounding arguments into an integer parameter
    for v in (2.5, 3.5, -2.5, 0.25, 99.75):
        calls.append({'fn': fns[0]['name'], 'args': [K(v)], 'form': 'eval'})
    cases.append({'deftypes': [], 'fns': fns, 'globals': gl, 'arrays': [['X%', [1, 2, 3]], ['X$', ['a', 'b']]], 'calls': calls})
    # recursion
    fns = [
        {'name': 'FNR', 'params': ['X'], 'body': ['+', ['FN', 'FNR', [['-', ['V', 'X'], K(1)]]], K(1)], 'kind': 'rec-self'},
        {'name': 'FNS%', 'params': ['N%'], 'body': ['*', ['V', 'N%'], ['FN', 'FNS%', [['V', 'N%']]]], 'kind': 'rec-self'},
        {'name': 'FNM', 'params': ['X'], 'body': ['FN', 'FNN', [['V', 'X']]], 'kind': 'rec-mutual'},
        {'name': 'FNN', 'params': ['Y'], 'body': ['+', ['FN', 'FNM', [['V', 'Y']]], K(1)], 'kind': 'rec-mutual'},
        {'name': 'FNA#', 'params': ['X'], 'body': ['FN', 'FNB#', [['V', 'X']]], 'kind': 'rec-mutual'},
        {'name': 'FNB#', 'params': ['X'], 'body': ['FN', 'FNC#', [['V', 'X']]], 'kind': 'rec-mutual'},
        {'name': 'FNC#', 'params': ['X'], 'body': ['FN', 'FNA#', [['V', 'X']]], 'kind': 'rec-mutual'},
        {'name': 'FNT$', 'params': ['S$'], 'body': ['CAT', ['V', 'S$'], ['FN', 'FNT$', [['V', 'S$']]]], 'kind': 'rec-self'},
        {'name': 'FNV#', 'params': ['X', 'Y'], 'body': ['+', ['*', ['V', 'X'], K(2)], ['V', 'Y']], 'kind': 'value'},
    ]
    calls = []
    for nm, arg in (('FNR', K(3)), ('FNS%', K(2)), ('FNM', K(1)), ('FNN', K(1)), ('FNA#', K(7)), ('FNC#', K(7)), ('FNT$', KS('s'))):
        for form in ('eval', 'print', 'let'):
            calls.append({'fn': nm, 'args': [arg], 'form': form})
        # a normal call must still work after the recursion error
        calls.append({'fn': 'FNV#', 'args': [K(3), K(4)], 'form': 'eval'})
    # nesting in the ARGUMENT is not recursion
    calls.append({'fn': 'FNV#', 'args': [['FN', 'FNV#', [K(1), K(2)]], K(5)], 'form': 'eval'})
    cases.append({'deftypes': [], 'fns': fns, 'globals': [['X!', 5.0], ['Y!', 6.0], ['N%', 7], ['S$', 'glob']], 'arrays': [], 'calls': calls})
    # recursion cycles of length 1..4 through every signature (no parameter, numeric, string, mixed)
    FN = lambda n, a: ['FN', n, a]
    fns = [
        {'name': 'FNE', 'params': [], 'body': ['+', FN('FNE', []), K(1)], 'kind': 'rec-self'},
        {'name': 'FNF$', 'params': [], 'body': ['CAT', FN('FNF$', []), KS('x')], 'kind': 'rec-self'},
        {'name': 'FNG%', 'params': [], 'body': FN('FNG%', []), 'kind': 'rec-self'},
        # 2-cycle, both parameterless
        {'name': 'FNA', 'params': [], 'body': ['*', K(2), FN('FNB#', [])], 'kind': 'rec-mutual'},
        {'name': 'FNB#', 'params': [], 'body': ['+', FN('FNA', []), K(1)], 'kind': 'rec-mutual'},
        # 3-cycle: parameterless -> numeric -> string -> back
        {'name': 'FNH', 'params': [], 'body': FN('FNI!', [K(2)]), 'kind': 'rec-mutual'},
        {'name': 'FNI!', 'params': ['X'], 'body': ['LEN', FN('FNJ$', [KS('q'), ['V', 'X']])], 'kind': 'rec-mutual'},
        {'name': 'FNJ$', 'params': ['S$', 'N%'], 'body': ['CAT', ['SPACE', FN('FNH', [])], ['V', 'S$']], 'kind': 'rec-mutual'},
        # 4-cycle: parameterless only in the middle
        {'name': 'FNK#', 'params': ['X'], 'body': ['+', FN('FNL#', []), ['V', 'X']], 'kind': 'rec-mutual'},
        {'name': 'FNL#', 'params': [], 'body': FN('FNM#', [KS('s')]), 'kind': 'rec-mutual'},
        {'name': 'FNM#', 'params': ['S$'], 'body': ['+', ['LEN', ['V', 'S$']], FN('FNO#', [])], 'kind': 'rec-mutual'},
        {'name': 'FNO#', 'params': [], 'body': FN('FNK#', [K(1)]), 'kind': 'rec-mutual'},
        {'name': 'FNV#', 'params': ['X', 'Y'], 'body': ['+', ['*', ['V', 'X'], K(2)], ['V', 'Y']], 'kind': 'value'},
        {'name': 'FNW#', 'params': [], 'body': ['+', ['V', 'X'], K(1)], 'kind': 'value'},
    ]
    calls = []
    entry = [('FNE', []), ('FNF$', []), ('FNG%', []), ('FNA', []), ('FNB#', []), ('FNH', []), ('FNI!', [K(3)]),
             ('FNJ$', [KS('s'), K(1)]), ('FNK#', [K(3)]), ('FNL#', []), ('FNM#', [KS('s')]), ('FNO#', [])]
    for nm, args in entry:
        for form in ('eval', 'print', 'let', 'nested'):
            calls.append({'fn': nm, 'args': args, 'form': form})
        # normal calls (with and without parameters) must still work after the recursion error
        calls.append({'fn': 'FNV#', 'args': [K(3), K(4)], 'form': 'eval'})
        calls.append({'fn': 'FNW#', 'args': [], 'form': 'eval'})
    # a recursive function as ARGUMENT of a sound one
    calls.append({'fn': 'FNV#', 'args': [FN('FNE', []), K(1)], 'form': 'eval'})
    calls.append({'fn': 'FNV#', 'args': [K(1), FN('FNK#', [K(2)])], 'form': 'print'})
    cases.append({'deftypes': [], 'fns': fns, 'globals': [['X!', 5.0], ['Y!', 6.0], ['N%', 7], ['S$', 'glob']],
                  'arrays': [['X!', [1.5, 2.5]]], 'calls': calls})
    # failing arguments / bodies
    fns = [
        {'name': 'FNI%', 'params': ['X%', 'S$'], 'body': ['+', ['V', 'X%'], ['LEN', ['V', 'S$']]], 'kind': 'value'},
        {'name': 'FNZ', 'params': ['X'], 'body': ['DIV0', ['V', 'X']], 'kind': 'err-body'},
        {'name': 'FNO', 'params': ['X'], 'body': ['OVF', ['V', 'X']], 'kind': 'err-body'},
        {'name': 'FNQ', 'params': ['X', 'Y$'], 'body': ['MIS', ['V', 'X']], 'kind': 'err-body'},
        {'name': 'FNF', 'params': ['X', 'Y$'], 'body': ['IFC', ['V', 'X']], 'kind': 'err-body'},
        {'name': 'FNH%', 'params': ['X'], 'body': ['+', ['V', 'X'], K(40000)], 'kind': 'err-result'},
        {'name': 'FNW', 'params': ['X'], 'body': ['+', ['FN', 'FNZ', [['V', 'X']]], K(1)], 'kind': 'value'},
        {'name': 'FNY', 'params': ['X', 'Y$'], 'body': ['+', ['FN', 'FNQ', [['V', 'X'], ['V', 'Y$']]], K(1)], 'kind': 'value'},
    ]
    calls = []
    for form in ('eval', 'print', 'let'):
        calls += [
            {'fn': 'FNI%', 'args': [K(40000), KS('a')], 'form': form},
            {'fn': 'FNI%', 'args': [KS('a'), KS('a')], 'form': form},
            {'fn': 'FNI%', 'args': [K(1), K(2)], 'form': form},
            {'fn': 'FNI%', 'args': [K(32767), KS('a')], 'form': form},
            {'fn': 'FNI%', 'args': [K(3), KS('abc')], 'form': form},
            {'fn': 'FNZ', 'args': [K(1)], 'form': form},
            {'fn': 'FNO', 'args': [K(10)], 'form': form},
            {'fn': 'FNQ', 'args': [K(1), KS('zz')], 'form': form},
            {'fn': 'FNF', 'args': [K(1), KS('zz')], 'form': form},
            {'fn': 'FNH%', 'args': [K(1)], 'form': form},
            {'fn': 'FNW', 'args': [K(2)], 'form': form},
            {'fn': 'FNY', 'args': [K(2), KS('in')], 'form': form},
        ]
    cases.append({'deftypes': [], 'fns': fns,
                  'globals': [['X%', 77], ['S$', 'glob'], ['X!', 5.0], ['Y$', 'why']], 'arrays': [['X!', [1.5, 2.5]]], 'calls': calls})
    # DEFtype of an unsuffixed parameter's letter changes between DEF FN and the call
    fns = [
        {'name': 'FNA#', 'params': ['X'], 'body': ['*', ['V', 'X'], K(2)], 'kind': 'value'},
        {'name': 'FNB#', 'params': ['X', 'Y'], 'body': ['+', ['V', 'X'], ['V', 'Y']], 'kind': 'value'},
        {'name': 'FNC#', 'params': ['N', 'W$'], 'body': ['+', ['V', 'N'], ['LEN', ['V', 'W$']]], 'kind': 'value'},
        {'name': 'FND#', 'params': ['Z'], 'body': ['+', ['FN', 'FNA#', [['V', 'Z']]], ['V', 'X']], 'kind': 'value'},
    ]
    calls = []
    for form in ('eval', 'print', 'let'):
        calls += [
            {'fn': 'FNA#', 'args': [K(3)], 'form': form},
            {'fn': 'FNA#', 'args': [['V', 'X!']], 'form': form},
            {'fn': 'FNB#', 'args': [K(1), K(2)], 'form': form},
            {'fn': 'FNB#', 'args': [['V', 'Y#'], ['V', 'X%']], 'form': form},
            {'fn': 'FNC#', 'args': [K(4), KS('abc')], 'form': form},
            {'fn': 'FND#', 'args': [K(8)], 'form': form},
            {'fn': 'FNA#', 'args': [K(40000)], 'form': form},
            {'fn': 'FNA#', 'args': [KS('s')], 'form': form},
        ]
    for d2 in ([['DEFINT', 'X'], ['DEFDBL', 'Y']], [['DEFDBL', 'X'], ['DEFINT', 'N'], ['DEFINT', 'Z']], [['DEFSTR', 'X'], ['DEFINT', 'Y']],
               [['DEFINT', 'X-Z'], ['DEFSNG', 'N']]):
        cases.append({'deftypes': [['DEFDBL', 'N']], 'deftypes2': d2, 'fns': fns,
                      'globals': [['X!', 7.0], ['X%', 5], ['X#', 11.0], ['X$', 'gx'], ['Y!', 1.5], ['Y#', 2.25], ['Y%', 9], ['N#', 6.0],
                                  ['N%', 13], ['N!', 21.0], ['Z!', 30.0], ['Z%', 31], ['W$', 'glob']],
                      'arrays': [['X%', [1, 2, 3]]], 'calls': calls})
    return cases


def directed_tight_case():
    K, KS = fg._k, fg._ks
    fns = [
        {'name': 'FNS$', 'params': ['A$', 'B$'],
         'body': ['CAT', ['CAT', ['V', 'A$'], ['SPACE', K(20)]], ['CAT', ['V', 'B$'], ['V', 'A$']]], 'kind': 'value'},
        {'name': 'FNT$', 'params': ['A$'], 'body': ['CAT', ['FN', 'FNS$', [['V', 'A$'], ['V', 'G$']]], ['V', 'A$']], 'kind': 'value'},
        {'name': 'FNL%', 'params': ['A$', 'N%'], 'body': ['+', ['LEN', ['CAT', ['V', 'A$'], ['SPACE', K(30)]]], ['V', 'N%']], 'kind': 'value'},
        {'name': 'FNP$', 'params': ['B$'], 'body': ['V', 'B$'], 'kind': 'proj', 'proj': 'B$'},
    ]
    calls = []
    for i in range(12):
        calls.append({'fn': 'FNS$', 'args': [KS('arg%d' % i), ['CAT', KS('second'), KS('-%d' % i)]], 'form': 'eval'})
        calls.append({'fn': 'FNT$', 'args': [['SPACE', K(12)]], 'form': 'let'})
        calls.append({'fn': 'FNL%', 'args': [['CAT', KS('pq'), KS('rs')], K(i)], 'form': 'print'})
        calls.append({'fn': 'FNP$', 'args': [['CAT', KS('proj'), KS('ect%d' % i)]], 'form': 'eval'})
    return {'deftypes': [], 'fns': fns, 'tight': True,
            'globals': [['A$', 'global-a'], ['B$', 'global-b'], ['G$', 'gee'], ['N%', 5], ['H$', 'another string value']],
            'arrays': [['A$', ['e0', 'e1', 'e2']]], 'calls': calls}


# ---------------------------------------------------------------------------------------------------

def run_shard(spec, res):
    from .. import harness
    t0 = time.process_time()
    kind = spec['kind']
    rng = random.Random('%s:C20:%s:%s' % (spec['seed'], kind, spec.get('part', 0)))
    if kind == 'directed':
        for case in directed_cases():
            with harness.Box() as box:
                obs = Obs(box, res, harness)
                lines = fg.program_lines(case)
                out = _run(obs, lines)
                if out is None:
                    continue
                run_direct(obs, case, lines, sample=True)
            for trap in (False, True):
                with harness.Box() as box:
                    obs = Obs(box, res, harness)
                    run_inprog(obs, case, fg.program_lines(case), trap)
        for slack in (40, 90, 160, 300):
            _tight_case(res, harness, directed_tight_case(), slack)
    elif kind == 'direct':
        gen = fg.Gen(rng)
        for i in range(spec['programs']):
            case = gen.case(ncalls=spec['calls'])
            with harness.Box() as box:
                obs = Obs(box, res, harness)
                lines = fg.program_lines(case)
                if _run(obs, lines) is None:
                    continue
                run_direct(obs, case, lines, sample=(i == 0))
    elif kind == 'inprog':
        gen = fg.Gen(rng)
        for i in range(spec['programs']):
            case = gen.case(ncalls=spec['calls'])
            with harness.Box() as box:
                obs = Obs(box, res, harness)
                run_inprog(obs, case, None, trap=(i % 2 == 0))
    elif kind == 'tight':
        gen = fg.Gen(rng, tight=True)
        for i in range(spec['programs']):
            case = gen.case(ncalls=spec['calls'])
            _tight_case(res, harness, case, rng.choice([30, 60, 100, 180, 400]))
    else:
        raise ValueError(kind)
    res.count('cpu_seconds', int(round(time.process_time() - t0)))


def _run(obs, lines):
    try:
        out = obs.box.run(lines)
    except obs.harness.Internal as e:
        obs.res.violation(e.key, str(e), {'program': lines})
        return None
    if obs.harness.err_of(out)[0]:
        obs.res.count('programs_not_started')
        return None
    obs.res.count('programs_run')
    return out


def _tight_case(res, harness, case, slack):
    with harness.Box() as box:
        obs = Obs(box, res, harness)
        try:
            lines = tighten(obs, case, harness, slack)
        except harness.Internal as e:
            res.violation(e.key, str(e), {'case': case})
            return
        if lines is None:
            res.count('programs_not_started')
            return
        if _run(obs, lines) is None:
            return
        res.count('tight_programs')
        run_direct(obs, case, lines)
