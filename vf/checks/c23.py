"""
C23 RUN, CLEAR and NEW reset state; CHAIN keeps exactly the COMMON variables.

Oracle (R-MEM: a dictionary model of the variable state): a generated program P1 builds a random
state - DEFtype ranges, OPTION BASE, scalars of all four types (explicit and implicit sigils), arrays
(numeric and string, DIMmed and default), heap and literal strings up to 255 bytes, strings FIELDed on an open random file (LSET/RSET, GET) under a memory limit
set by CLEAR ,n, DEF FN definitions, an error trap, event traps, a moved random sequence - and performs,
from inside nested FOR / WHILE / GOSUB / an active error handler (before RESUME) / an event handler
(before RETURN), one of
    CLEAR (in program / direct), RUN line (in program / direct), RUN "file", NEW (in program / direct),
    CHAIN, CHAIN ALL, CHAIN MERGE, CHAIN MERGE ALL (optionally with a start line and DELETE range)
with random COMMON lists (explicit / DEFtype-resolved names, arrays, undefined names, repeats).
Observation: what the continuing program prints (integer values and string lengths of every variable,
then a NEW error trap that must work, then the NEXT / WEND / RETURN / RESUME that closes the construct it was in), and afterwards public-API reads of
every variable and array plus small direct-mode probe statements (DIM of each array, FN call, an
assignment through an implicit name, DIM for the base, RETURN, ERROR 77, RND); for a share of the
RUN/CLEAR/NEW cases instead a history of OPTION BASE / DIM / ERASE / element accesses, which must give,
statement by statement, the output it gives in a fresh session.
Expected: after RUN/CLEAR/NEW everything is as in a fresh session; after CHAIN exactly the COMMON
variables (all with ALL) keep identical values and everything else is cleared.
"""
import random
from fractions import Fraction

META = {
    'property_id': 'C23',
    'technique': 'frame-condition monitor against a dictionary model (R-MEM): state before RUN/CLEAR/NEW/CHAIN vs public-API reads and probe statements after it',
    'level': 'exploration',
    'level_text': (
        'Runtime oracle: after the reset statement every variable, array, DEF FN, DEFtype, OPTION BASE, loop / subroutine '
        'stack, error trap and the RND sequence is observed through the public variable API and small probe statements and '
        'compared with a dictionary model of what must survive (nothing; or exactly the COMMON set with identical scalar, '
        'string and array contents). States include strings near the memory limit set by CLEAR ,n so that string space is '
        'rebuilt under pressure. Held = every observed state/action pair agreed.'),
    'level_note': (
        'Trusted: harness, Session.get_variable. Not pinned by the statement and therefore not probed: after CHAIN - OPTION '
        'BASE (documented as preserved), DEF FN when ALL is given, DEFtype when MERGE is given, the RND sequence, event '
        'traps; the outcome when the chained program plus COMMON data no longer fit (Out of memory: case discarded and '
        'counted). Event traps are part of the generated state but their reset is not probed (the statement does not list '
        'them). Survival probes are three-valued: only the outcome that proves survival (Duplicate Definition, a value, the old handler running) is a violation, success means cleared, any other error (Out of memory under a tight CLEAR ,n) is counted as an inconclusive probe. A surviving FOR/WHILE frame is only observable through the NEXT/WEND that closes the loop the reset was in.'),
    'rule': ('case = (state program P1, action, chained program); distinct by the full text; non-trivial = the state held at '
             'least 3 variables with non-default values and the action was reached (cases ending in Out of memory / Out of '
             'string space while building or chaining are discarded and counted)'),
    'design_ref': 'DESIGN.md section 4 C23',
    'assumptions': ['R-MEM dictionary model', 'a fresh session defines the reset state (first RND values, defaults)'],
    'require_counters': {'any': [
        'action_clear', 'action_clear_direct', 'action_run_line', 'action_run_direct', 'action_run_file', 'action_new',
        'action_new_direct', 'action_chain', 'action_chain_all', 'action_chain_merge', 'action_chain_merge_all',
        'common_scalars_preserved', 'common_arrays_preserved', 'common_strings_preserved', 'non_common_cleared',
        'long_strings_in_state', 'memory_limited_states', 'closing_next_raised_error', 'closing_wend_raised_error',
        'def_fn_probed', 'deftype_probed', 'option_base_probed', 'trap_probed', 'rnd_probed', 'directed_cases',
        'base_dim_erase_histories_replayed', 'history_with_subscript_error', 'history_with_duplicate_definition',
        'reset_inside_error_handler', 'reset_inside_event_handler', 'closing_resume_raised_error',
        'failed_chain_then_string_churn', 'states_with_fielded_strings', 'fielded_strings_in_common',
        'same_named_scalar_and_array:only_array_common', 'same_named_scalar_and_array:only_scalar_common',
        'same_named_scalar_and_array:both_common']},
    'timeout': {'quick': 600, 'thorough': 7200},
}

E = b'\xff\r\n'
ACTIONS = ['clear', 'clear_direct', 'run_line', 'run_direct', 'run_file', 'new', 'new_direct',
           'chain', 'chain', 'chain_all', 'chain_merge', 'chain_merge', 'chain_merge_all']


def plan(tier, seed):
    shards = [{'kind': 'directed'}]
    if tier == 'quick':
        for i in range(12):
            shards.append({'kind': 'random', 'part': i, 'n': 110})
    else:
        for i in range(47):
            shards.append({'kind': 'random', 'part': i, 'n': 2200})
    return shards


# ---------------------------------------------------------------------------------------------------
# R-MEM: generated state

SIGILS = '%!#$'


def _dec(fr):
    """Exact decimal text of a dyadic Fraction."""
    a = abs(fr)
    ip = a.numerator // a.denominator
    fp = a - ip
    s = ''
    while fp:
        fp *= 10
        d = fp.numerator // fp.denominator
        s += '%d' % d
        fp -= d
    return ('-' if fr < 0 else '') + '%d' % ip + ('.' + s if s else '')


def _value(rng, sigil, long_ok=False):
    """-> (python value as the API reports it, BASIC expression text)."""
    if sigil == '%':
        v = rng.choice([rng.randint(-32768, 32767), rng.randint(-100, 100), 32767, -32768, 1, -1])
        if v == 0:
            v = 7
        return v, '%d' % v
    if sigil == '!':
        fr = Fraction(rng.choice([1, -1]) * rng.randint(1, 1 << 20), 1 << rng.randint(0, 6))
        return float(fr), _dec(fr) + ('!' if fr.denominator == 1 else '')
    if sigil == '#':
        fr = Fraction(rng.choice([1, -1]) * rng.randint(1, 1 << 30), 1 << rng.randint(0, 6))
        return float(fr), _dec(fr) + '#'
    # strings: literal (lives in program text), copied to the heap, or built long
    alphabet = 'abcdefghijklmnopqrstuvwxyzABCDEFGHIJKLMNOPQRSTUVWXYZ0123456789 ,.:;-+*/()<>=!?#$%&'
    n = rng.choice([1, 2, 5, 9, 17, 30])
    lit = ''.join(rng.choice(alphabet) for _ in range(n))
    if rng.random() < 0.12:
        # an empty string computed at run time (not a "" literal, not an unset variable)
        return b'', rng.choice(['MID$("%s",1,0)' % lit, 'LEFT$("%s"+"",0)' % lit, 'SPACE$(0)', '""+""', 'STRING$(0,65)',
                                'RIGHT$("%s",0)' % lit, 'MID$("%s"+"x",%d)' % (lit, n + 2)])
    style = rng.random()
    if long_ok and style < 0.45:
        k = rng.choice([60, 120, 200, 255 - n, 250 - n, rng.randint(30, 255 - n)])
        c = rng.randint(33, 126)
        if c == 34:
            c = 35
        if rng.random() < 0.5:
            return bytes([c]) * k + lit.encode('ascii'), 'STRING$(%d,%d)+"%s"' % (k, c, lit)
        return lit.encode('ascii') + b' ' * k, '"%s"+SPACE$(%d)' % (lit, k)
    if style < 0.7:
        return lit.encode('ascii'), '"%s"+""' % lit
    if style < 0.8:
        m = max(1, n // 2)
        return lit[:m].encode('ascii'), 'LEFT$("%s",%d)' % (lit, m)
    return lit.encode('ascii'), '"%s"' % lit


def _default(sigil):
    return b'' if sigil == '$' else (0 if sigil == '%' else 0.0)


class Case(object):
    pass


# OPTION BASE / DIM / ERASE histories: run after the reset and, identically, in a fresh session
FIXED_SCRIPTS = [
    ['OPTION BASE 1', 'DIM B(5):B(1)=7:ERASE B', 'DIM C(3)', 'C(0)=1', 'OPTION BASE 0', 'PRINT C(1)'],
    ['DIM B(5)', 'ERASE B', 'OPTION BASE 1', 'DIM C(2)', 'C(0)=1', 'PRINT C(1);C(2)'],
    ['B(3)=4', 'OPTION BASE 1', 'ERASE B', 'OPTION BASE 1', 'DIM B(3)', 'B(0)=1'],
    ['OPTION BASE 0', 'DIM B(2)', 'ERASE B', 'OPTION BASE 1', 'OPTION BASE 0', 'B(0)=3:PRINT B(0)'],
    ['OPTION BASE 1', 'OPTION BASE 1', 'OPTION BASE 0', 'DIM B%(2,2)', 'B%(0,1)=1', 'ERASE B%', 'B%(0,0)=2'],
    ['DIM B$(3)', 'B$(0)="x"', 'ERASE B$', 'ERASE B$', 'OPTION BASE 1', 'B$(0)="y"', 'PRINT B$(1)'],
]


def gen_script(rng):
    names = ['B', 'C%', 'D$']
    out = []
    for _ in range(rng.randint(5, 10)):
        k = rng.random()
        a = rng.choice(names)
        lit = {'B': '7', 'C%': '3', 'D$': '"x"'}[a]
        if k < 0.25:
            out.append('OPTION BASE %d' % rng.choice([0, 1, 1]))
        elif k < 0.45:
            out.append(rng.choice(['DIM %s(%d)' % (a, rng.randint(1, 5)), 'DIM %s(2,%d)' % (a, rng.randint(1, 3))]))
        elif k < 0.65:
            out.append('ERASE ' + rng.choice([a, a, ','.join(rng.sample(names, 2)), ','.join(names)]))
        elif k < 0.85:
            out.append(rng.choice(['%s(0)=%s' % (a, lit), '%s(1)=%s' % (a, lit), '%s(0,1)=%s' % (a, lit), '%s(11)=%s' % (a, lit)]))
        else:
            out.append(rng.choice(['PRINT %s(0)' % a, 'PRINT %s(1)' % a, 'PRINT %s(2,1)' % a]))
    return out


def gen_case(rng):
    c = Case()
    c.fielded = 0
    c.action = rng.choice(ACTIONS)
    chain = c.action.startswith('chain')
    # ---- DEFtype
    deftype = {}                      # letter -> sigil
    defstmts = []
    for _ in range(rng.choice([0, 1, 1, 2])):
        kind, sig = rng.choice([('DEFINT', '%'), ('DEFINT', '%'), ('DEFSTR', '$'), ('DEFDBL', '#'), ('DEFSNG', '!')])
        a = rng.choice('ABCDEFGH')
        b = rng.choice('ABCDEFGH')
        a, b = min(a, b), max(a, b)
        if rng.random() < 0.4:
            b = a
        defstmts.append('%s %s' % (kind, a if a == b else a + '-' + b))
        for ch in range(ord(a), ord(b) + 1):
            deftype[chr(ch)] = sig
    c.deftype = deftype
    base = rng.choice([None, None, None, 0, 1, 1])
    c.base = base
    lo = base or 0

    def full(name):
        return name if name[-1] in SIGILS else name + deftype.get(name[0], '!')

    # ---- scalars
    mem_limited = rng.random() < 0.4
    scalars = {}                      # full name -> (value, written name, expression)
    written = {}
    for _ in range(rng.randint(3, 9)):
        nm = rng.choice('ABCDEFGH') + rng.choice(['', '1', '2', '7'])
        if rng.random() < 0.75:
            nm += rng.choice(SIGILS)
        f = full(nm)
        if f in scalars:
            continue
        v, text = _value(rng, f[-1], long_ok=True)
        scalars[f] = v
        written[f] = (nm, text)
    # ---- arrays
    arrays = {}                       # full name -> (dims, {index tuple: value}, DIMmed?)
    awritten = {}
    for _ in range(rng.choice([0, 1, 2, 2, 3])):
        nm = rng.choice('ABCDEFGH') + rng.choice(['', '3', '5'])
        if rng.random() < 0.75:
            nm += rng.choice(SIGILS)
        f = full(nm)
        if f in arrays:
            continue
        if rng.random() < 0.25:
            dims, dimmed = [10], False
        else:
            dims, dimmed = [rng.randint(max(1, lo), 5) for _ in range(rng.choice([1, 1, 2]))], True
        cells = {}
        for _ in range(rng.randint(1, 5)):
            idx = tuple(rng.randint(lo, d) for d in dims)
            v, text = _value(rng, f[-1], long_ok=rng.random() < 0.3)
            cells[idx] = (v, text)
        arrays[f] = (dims, cells, dimmed)
        awritten[f] = nm
    if mem_limited and 'L9$' not in arrays:
        # a block of long strings, so that string space is a large part of what has to be moved
        n = rng.randint(max(2, lo), 10)
        cells = {}
        for i in range(lo, n + 1):
            if rng.random() < 0.8:
                cells[(i,)] = _value(rng, '$', long_ok=True)
        arrays['L9$'] = ([n], cells, True)
        awritten['L9$'] = 'L9$'
    # ---- a scalar and an array that share their name (A and A(), B$ and B$()): COMMON names them separately
    c.twins = []
    if arrays and rng.random() < 0.45:
        f = rng.choice(sorted(arrays))
        if f not in scalars and f != 'L9$':
            v, text = _value(rng, f[-1])
            scalars[f] = v
            written[f] = (awritten[f], text)
        if f in scalars and f in written:
            c.twins.append(f)
    # ---- strings that live in the FIELD buffer of an open random file (scalars and an array element)
    field_lines = []
    if rng.random() < 0.3:
        parts, sets = [], []
        for nm in rng.sample(['F7$', 'G8$', 'H9$'], rng.choice([1, 2])):
            if nm in scalars:
                continue
            w = rng.choice([1, 5, 12, 30])
            text = ''.join(rng.choice('abcXYZ019 .') for _ in range(rng.randint(1, w)))
            right = rng.random() < 0.3
            scalars[nm] = (text.rjust(w) if right else text.ljust(w)).encode('ascii')
            parts.append('%d AS %s' % (w, nm))
            sets.append('%s %s="%s"' % ('RSET' if right else 'LSET', nm, text))
        if rng.random() < 0.6 and 'K9$' not in arrays:
            w = rng.choice([3, 8, 20])
            text = ''.join(rng.choice('abcXYZ019 .') for _ in range(rng.randint(1, w)))
            idx = (rng.randint(lo, 3),)
            arrays['K9$'] = ([3], {idx: (text.ljust(w).encode('ascii'), None)}, True)
            awritten['K9$'] = 'K9$'
            parts.append('%d AS K9$(%d)' % (w, idx[0]))
            sets.append('LSET K9$(%d)="%s"' % (idx[0], text))
        if parts:
            field_lines = ['OPEN "R",#1,"RF.DAT",128', 'FIELD #1,' + ','.join(parts)] + sets
            if rng.random() < 0.4:
                field_lines += ['PUT #1,1', 'GET #1,1']
            c.fielded = len(parts)
    # ---- functions, traps, random sequence
    fns = []
    for name in rng.sample(['FNA', 'FNB', 'FNH'], rng.choice([0, 1, 1, 2])):
        fns.append(name)
    c.fns = fns
    c.trap = rng.random() < 0.6
    c.events = rng.random() < 0.4
    c.rnd_moves = rng.randint(0, 3)
    c.randomize = rng.choice([None, None, 3, 77])
    # ---- context the action sits in (outer -> inner)
    ctx = [rng.choice(['for', 'while', 'gosub', 'gosub', 'trap', 'event']) for _ in range(rng.choice([0, 1, 1, 2, 3]))]
    # at most one active error handler and one event handler; events do not fire inside an error handler,
    # so the event handler is entered first
    for kind in ('trap', 'event'):
        while ctx.count(kind) > 1:
            ctx[len(ctx) - 1 - ctx[::-1].index(kind)] = 'gosub'
    if 'trap' in ctx and 'event' in ctx and ctx.index('trap') < ctx.index('event'):
        i, j = ctx.index('trap'), ctx.index('event')
        ctx[i], ctx[j] = ctx[j], ctx[i]
    c.ctx = ctx
    if 'trap' in ctx:
        c.trap = True
    # ---- COMMON declarations
    commons_s, commons_a = set(), set()
    common_stmts = []
    if chain:
        for _ in range(rng.choice([0, 1, 1, 2])):
            items = []
            for _ in range(rng.randint(1, 4)):
                k = rng.random()
                if k < 0.45 and scalars:
                    f = rng.choice(sorted(scalars))
                    nm = written[f][0] if (f in written and rng.random() < 0.6) else f
                    items.append(nm)
                    commons_s.add(f)
                elif k < 0.8 and arrays:
                    f = rng.choice(sorted(arrays))
                    nm = awritten[f] if rng.random() < 0.6 else f
                    items.append(nm + rng.choice(['()', '()', '(1)']))
                    commons_a.add(f)
                else:
                    items.append(rng.choice(['Z8%', 'Z9$', 'ZQ()', 'Z7!']))
            common_stmts.append('COMMON ' + ','.join(items))
        for f in c.twins:
            # each combination of which of the two is declared
            nm = written[f][0] if rng.random() < 0.6 else f
            which = rng.choice(['array', 'array', 'scalar', 'both', 'none'])
            if which in ('array', 'both'):
                common_stmts.append('COMMON %s()' % nm)
                commons_a.add(f)
            if which in ('scalar', 'both'):
                common_stmts.append('COMMON %s' % nm)
                commons_s.add(f)
    all_ = c.action in ('chain_all', 'chain_merge_all')
    merge = c.action.startswith('chain_merge')
    # ---- P1: setup lines
    setup = []
    c.mem = None
    if mem_limited:
        # the limit is fitted to the state at run time (dry run without limit): live bytes + slack
        c.mem = 'auto'
        c.slack = rng.choice([40, 120, 300, 800, 2500, 6000, 6000])
        setup.append('CLEAR ,65000')
    setup.extend(defstmts)
    if base is not None:
        setup.append('OPTION BASE %d' % base)
    pre_common = [t for t in common_stmts if rng.random() < 0.6]
    post_common = [t for t in common_stmts if t not in pre_common]
    setup.extend(pre_common)
    for f in sorted(arrays):
        dims, cells, dimmed = arrays[f]
        if dimmed:
            setup.append('DIM %s(%s)' % (awritten[f], ','.join('%d' % d for d in dims)))
    assigns = ['%s=%s' % written[f] for f in scalars if f in written]
    for f in arrays:
        for idx, (v, text) in arrays[f][1].items():
            if text is None:
                continue            # (set through FIELD / LSET below)
            assigns.append('%s(%s)=%s' % (awritten[f], ','.join('%d' % i for i in idx), text))
    rng.shuffle(assigns)
    churn = False
    for t in assigns:
        setup.append(t)
        if rng.random() < 0.2:
            # temporary garbage between the assignments, so that string space is collected on the way
            setup.append('Q9$=STRING$(%d,%d)+"x":Q9$=""' % (rng.randint(20, 120), rng.randint(65, 90)))
            churn = True
    setup.extend(field_lines)
    for name in fns:
        setup.append('DEF %s(X)=X*2+%d' % (name, rng.randint(1, 9)))
    if c.randomize is not None:
        setup.append('RANDOMIZE %d' % c.randomize)
    for _ in range(c.rnd_moves):
        setup.append('Q8=RND')
    if c.trap:
        setup.append('ON ERROR GOTO 9000')
    if c.events:
        setup.append('ON TIMER(30) GOSUB 9100:TIMER ON:ON KEY(2) GOSUB 9100:KEY(2) ON')
    # the scratch variables and loop counters are part of the state too
    if churn:
        scalars['Q9$'] = b''
    if c.rnd_moves:
        scalars['Q8!'] = None             # whatever RND gave: only "cleared or not" is checked
    # ---- what must survive
    if chain and all_:
        pass
    # ---- the observation program: integer values and string lengths of every scalar, then a closer
    start = 5000
    in_place = c.action == 'clear'
    # segments: main, then one per GOSUB level; each holds its openers
    segments = [[]]
    seg_closers = [[]]
    seg_end = [None]          # what leaves the segment: RETURN / RESUME NEXT (None: main program)
    targets = [None]
    c.key_event = False
    for k, kind in enumerate(ctx):
        if kind == 'for':
            v = 'I%d%%' % (k + 1)
            segments[-1].append('FOR %s=1 TO 3' % v)
            seg_closers[-1].append(('next', 'NEXT'))
            scalars[v] = 1
        elif kind == 'while':
            v = 'W%d%%' % (k + 1)
            segments[-1].append('%s=0' % v)
            segments[-1].append('WHILE %s<2:%s=%s+1' % (v, v, v))
            seg_closers[-1].append(('wend', 'WEND'))
            scalars[v] = 1
        else:
            t = 1000 + 300 * (len(segments) - 1)
            if kind == 'gosub':
                segments[-1].append('GOSUB %d' % t)
                seg_end.append('RETURN')
            elif kind == 'trap':
                # the rest runs inside an active error handler (no RESUME yet)
                segments[-1].append('ON ERROR GOTO %d' % t)
                segments[-1].append('ERROR 5')
                seg_end.append('RESUME NEXT')
            else:
                # the rest runs inside an event handler (no RETURN yet); the key arrives while the program idles
                segments[-1].append('ON KEY(1) GOSUB %d:KEY(1) ON' % t)
                segments[-1].append('WHILE 1:WEND')
                seg_end.append('RETURN')
                c.key_event = True
            segments[-1].append('PRINT "RETURNED":END')
            segments.append([])
            seg_closers.append([])
            targets.append(t)
    if chain and all_:
        keep_s, keep_a = set(scalars), set(arrays)
    elif chain:
        keep_s = {f for f in commons_s if f in scalars}
        keep_a = {f for f in commons_a if f in arrays}
    else:
        keep_s, keep_a = set(), set()
    c.scalars, c.arrays, c.keep_s, c.keep_a = scalars, arrays, keep_s, keep_a
    c.probe_names = sorted(set(scalars) | {'Z1%', 'Z2$'})
    obs = ['PRINT "#V"']
    row = []
    c.expect_tokens = []
    for f in c.probe_names:
        if f[-1] not in '%$':
            continue
        row.append(f if f[-1] == '%' else 'LEN(%s)' % f)
        v = scalars.get(f) if f in keep_s else None
        c.expect_tokens.append((f, 0 if v is None else (v if f[-1] == '%' else len(v))))
        if len(row) == 6:
            obs.append('PRINT ' + ';'.join(row))
            row = []
    if row:
        obs.append('PRINT ' + ';'.join(row))
    obs.extend(['PRINT "#T"', 'ON ERROR GOTO 8000', '@trapline', 'ERROR 7', 'PRINT "T2"', 'ON ERROR GOTO 0'])
    obs.append('PRINT "#C"')
    # ---- the action
    c.p2 = None
    c.p2name = None
    c.direct_action = None
    c.use_line = False
    last = segments[-1]
    if c.action == 'clear':
        last.append(rng.choice(['CLEAR', 'CLEAR', 'CLEAR 10'] + ([] if c.mem else ['CLEAR ,30000', 'CLEAR ,,700'])))
    elif c.action == 'new':
        last.append('NEW')
    elif c.action == 'run_line':
        last.append('RUN %d' % start)
    elif c.action == 'run_file':
        c.p2name = 'PROBE'
        last.append('RUN "PROBE"')
    elif chain:
        c.p2name = 'P2'
        c.use_line = merge or rng.random() < 0.5
        t = 'CHAIN %s"P2"' % ('MERGE ' if merge else '')
        if c.use_line:
            t += ',%d' % start
        if all_:
            t += (',' if c.use_line else ',,') + 'ALL'
        if merge and rng.random() < 0.3:
            t += ',DELETE 9100-9100'
        last.append(t)
    else:
        last.append('END')                  # the action is given in direct mode afterwards
        if c.action == 'clear_direct':
            c.direct_action = rng.choice([b'CLEAR', b'CLEAR'] + ([] if c.mem else [b'CLEAR ,30000', b'CLEAR ,,700']))
        elif c.action == 'new_direct':
            c.direct_action = b'NEW'
        else:
            c.direct_action = b'RUN %d' % start
    c.action_text = last[-1]
    # ---- closers: textual NEXT / WEND for every opener; the first one after the observation is the probe
    c.closer = None
    for k in range(len(segments)):
        tail = [cl[1] for cl in reversed(seg_closers[k])]
        if k == len(segments) - 1 and in_place:
            segments[k].extend(obs)
            if k > 0:
                tail.append(seg_end[k])
            if tail:
                c.closer = {'NEXT': 'next', 'WEND': 'wend', 'RETURN': 'return', 'RESUME NEXT': 'resume'}[tail[0]]
            else:
                tail = ['END']
            segments[k].append('@closer')
            segments[k].extend(tail)
            segments[k].append('PRINT "CLOSED":END')
        else:
            segments[k].extend(tail)
            segments[k].append('END')
    numbered = []
    n = 10
    for t in setup + segments[0]:
        numbered.append([n, t])
        n += 5
    assert n < 1000
    for k in range(1, len(segments)):
        n = targets[k]
        for t in segments[k]:
            numbered.append([n, t])
            n += 5
        assert n < targets[k] + 300
    n = 4000
    for t in post_common:
        numbered.append([n, t])
        n += 10
    probe = None
    if not in_place and c.action not in ('new', 'new_direct', 'clear_direct'):
        closer = rng.choice([None, 'NEXT', 'WEND', 'RETURN', 'RESUME NEXT', 'RESUME'])
        c.closer = {'RESUME NEXT': 'resume', 'RESUME': 'resume'}.get(closer, closer.lower() if closer else None)
        probe = []
        n = start
        for t in obs + ['@closer', closer or 'END', 'PRINT "CLOSED":END']:
            probe.append([n, t])
            n += 10
        if c.p2name is None:
            numbered.extend(probe)
    numbered.append([8000, 'PRINT "NEWTRAP";ERR;ERL:RESUME NEXT'])
    numbered.append([9000, 'PRINT "OLDTRAP";ERR:END'])
    numbered.append([9100, 'PRINT "OLDEVENT":RETURN'])
    if probe is not None and c.p2name is not None:
        probe.append([8000, 'PRINT "NEWTRAP";ERR;ERL:RESUME NEXT'])

    def finish(rows):
        out, marks = [], {}
        mark = None
        for n, t in rows:
            if t in ('@closer', '@trapline'):
                mark = t
                continue
            if mark:
                marks[mark] = n
                mark = None
            out.append('%d %s' % (n, t))
            assert len(out[-1]) < 250
        return out, marks
    numbered.sort(key=lambda x: x[0])
    c.p1, marks = finish(numbered)
    if probe is not None and c.p2name is not None:
        c.p2, marks = finish(probe)
    c.closer_line = marks.get('@closer')
    c.trap_line = marks.get('@trapline')
    # the F1 key that starts the event handler arrives while the program idles in WHILE 1:WEND
    c.key_at = 4 * len(c.p1) + 120 if c.key_event else None
    # ---- expected program output
    if c.action in ('new', 'new_direct', 'clear_direct'):
        c.expected_out = b''
    else:
        exp = b'#V\r\n'
        k = 0
        toks = [v for _, v in c.expect_tokens]
        while k < len(toks):
            exp += b''.join((b'-%d ' % -v) if v < 0 else (b' %d ' % v) for v in toks[k:k + 6]) + b'\r\n'
            k += 6
        exp += b'#T\r\nNEWTRAP 7  %d \r\nT2\r\n' % c.trap_line
        exp += b'#C\r\n'
        msg = {'next': b'NEXT without FOR', 'wend': b'WEND without WHILE', 'return': b'RETURN without GOSUB',
               'resume': b'RESUME without error'}
        if c.closer:
            exp += msg[c.closer] + b' in %d' % c.closer_line + E
        c.expected_out = exp
    c.nontrivial_state = sum(1 for v in scalars.values() if v not in (None, 0, 0.0, b'')) + len(arrays) >= 3
    c.long_strings = sum(1 for v in scalars.values() if isinstance(v, bytes) and len(v) > 100) + \
        sum(1 for a in arrays.values() for v, _ in a[1].values() if isinstance(v, bytes) and len(v) > 100)
    c.chain, c.all_, c.merge = chain, all_, merge
    # a share of the RUN/CLEAR/NEW cases replays an OPTION BASE / DIM / ERASE history instead of the standard probes
    c.script = None
    if not chain and c.mem is None and rng.random() < 0.4:
        c.script = gen_script(rng) if rng.random() < 0.8 else list(rng.choice(FIXED_SCRIPTS))
    return c


# ---------------------------------------------------------------------------------------------------
# running one case

def _nested(dims, cells, lo, sigil):
    default = _default(sigil)

    def rec(prefix, rest):
        if not rest:
            return cells[prefix][0] if prefix in cells else default
        return [rec(prefix + (i,), rest[1:]) for i in range(lo, rest[0] + 1)]
    return rec((), list(dims))


def _jsonable_case(c):
    return {'action': c.action, 'p1': c.p1, 'p2name': c.p2name, 'p2': c.p2, 'direct_action': c.direct_action,
            'script': getattr(c, 'script', None), 'context': c.ctx, 'common_scalars_expected': sorted(c.keep_s), 'common_arrays_expected': sorted(c.keep_a)}


def run_case(c, res, harness, rnd_ref):
    # one key per mechanism: the in-program and the direct-mode form of a statement share the prefix
    act = {'clear_direct': 'clear', 'run_line': 'run', 'run_direct': 'run', 'run_file': 'run', 'new_direct': 'new'}.get(
        c.action, c.action).replace('_', '-')
    case = _jsonable_case(c)
    key = '\n'.join(c.p1 + (c.p2 or []) + [repr(c.direct_action)])
    found = []

    def viol(what, msg):
        found.append(what)
        res.violation('%s:%s' % (act, what), msg, case)

    try:
        if c.mem == 'auto':
            # dry run without limit: bytes in use when the action is reached (after a forced collection)
            dry = []
            for l in c.p1:
                num, _, text = l.partition(' ')
                dry.append('%s PRINT FRE(""):END' % num if text == c.action_text else l)
            with harness.Box(budget=6000) as box:
                _arm_key(c, box, harness)
                out = box.run([l.encode('ascii') for l in dry], budget=6000)
            try:
                used = 65000 - int(out.split()[0])
            except (ValueError, IndexError):
                used = None
            if used is None or used < 0:
                c.mem = None
            else:
                c.mem = used + c.slack
                c.p1 = [l.replace('CLEAR ,65000', 'CLEAR ,%d' % c.mem) if i == 0 else l for i, l in enumerate(c.p1)]
                case['p1'] = c.p1
                case['memory_limit'] = c.mem
                res.maxc('max_state_bytes', used)
        with harness.Box(budget=6000) as box:
            if c.p2:
                with open(box.path(c.p2name + '.BAS'), 'wb') as f:
                    f.write('\r\n'.join(c.p2).encode('ascii') + b'\r\n\x1a')
            _arm_key(c, box, harness)
            out = box.run([l.encode('ascii') for l in c.p1], budget=6000)
            if c.direct_action is not None:
                if out != b'':
                    code, _ = harness.err_of(out)
                    if c.mem and (code in (7, 14) or out.endswith((b'OLDTRAP 7 \r\n', b'OLDTRAP 14 \r\n'))):
                        res.case(key, nontrivial=False)
                        res.count('discarded_out_of_memory')
                        return
                    viol('state-program-failed', 'P1 printed %r before the direct action' % out[:120])
                    res.case(key)
                    return
                out = box.ex(c.direct_action, 6000)
            code, _ = harness.err_of(out)
            if c.mem and (code in (7, 14) or out.endswith((b'OLDTRAP 7 \r\n', b'OLDTRAP 14 \r\n'))):
                # the reset / chain statement itself failed for lack of memory (possibly caught by the state's own trap)
                res.case(key, nontrivial=False)
                res.count('discarded_out_of_memory')
                return
            res.case(key, nontrivial=c.nontrivial_state)
            res.count('action_' + c.action)
            if 'trap' in c.ctx:
                res.count('reset_inside_error_handler')
            if 'event' in c.ctx:
                res.count('reset_inside_event_handler')
            for f in getattr(c, 'twins', []):
                if c.chain and not c.all_:
                    res.count('same_named_scalar_and_array:%s_common' % {
                        (True, True): 'both', (True, False): 'only_scalar', (False, True): 'only_array', (False, False): 'neither'}[
                        (f in c.keep_s, f in c.keep_a)])
            if getattr(c, 'fielded', 0):
                res.count('states_with_fielded_strings')
                if c.chain and any(f in c.keep_s for f in ('F7$', 'G8$', 'H9$')) or 'K9$' in c.keep_a:
                    res.count('fielded_strings_in_common')
            if c.mem:
                res.count('memory_limited_states')
            if c.long_strings:
                res.count('long_strings_in_state', c.long_strings)
            _check_program_output(c, out, viol, res)
            if getattr(c, 'script', None):
                _check_script(c, box, viol, res, harness)
            else:
                _check_api(c, box, viol, res, harness, rnd_ref)
    except harness.Internal as e:
        res.case(key)
        res.violation(e.key, str(e), case)


def _arm_key(c, box, harness):
    if getattr(c, 'key_at', None):
        box.stepper.schedule[c.key_at] = [harness.key_event(u'\0;', harness.scancode.F1)]


def _check_program_output(c, out, viol, res):
    exp = c.expected_out
    if out == exp:
        if c.closer:
            res.count('closing_%s_raised_error' % c.closer)
        return
    if exp == b'':
        viol('unexpected-output', 'expected no output, got %r' % out[:160])
        return
    if b'OLDTRAP' in out:
        viol('error-trap-survives', 'the old error handler ran: %r' % out[:160])
        return
    head, sep, tail = out.partition(b'#C\r\n')
    ehead, _, etail = exp.partition(b'#C\r\n')
    if b'#T\r\n' in ehead:
        # the section in which a NEW error trap is set up and used
        head, tsep, tsec = head.partition(b'#T\r\n')
        ehead, _, etsec = ehead.partition(b'#T\r\n')
        if not tsep and not sep and head.startswith(b'#V\r\n') and b'#T' in out:
            tsec = out.partition(b'#T\r\n')[2]
        if tsec != etsec and (tsep or b'#T\r\n' in out):
            viol('new-error-trap-does-not-work', 'after the reset ON ERROR GOTO / ERROR 7 / RESUME NEXT printed %r, expected %r'
                 % (out.partition(b'#T\r\n')[2][:120], etsec))
            return
    if not out.startswith(exp[:4]) or not sep:
        viol('program-did-not-continue-as-expected', 'output %r, expected %r' % (out[:200], exp[:200]))
        return
    if head != ehead:
        got = head[4:].split()
        names = [f for f, _ in c.expect_tokens]
        want = [b'%d' % v for _, v in c.expect_tokens]
        for i, f in enumerate(names):
            g = got[i] if i < len(got) else None
            if g != want[i]:
                if f in c.keep_s:
                    what = 'common-string-length-changed' if f[-1] == '$' else 'common-scalar-value-changed'
                    if g == b'0':
                        what = 'common-string-lost' if f[-1] == '$' else 'common-scalar-lost'
                else:
                    what = 'string-survives' if f[-1] == '$' else 'scalar-survives'
                viol(what + ':seen-by-program', 'the continuing program printed %r for %s, expected %r (output %r)' % (g, f, want[i], out[:200]))
                break
        else:
            viol('program-values-garbled', 'output %r, expected %r' % (head[:200], ehead[:200]))
    if tail != etail:
        what = {'next': 'for-stack-survives', 'wend': 'while-stack-survives', 'return': 'gosub-stack-survives',
                'resume': 'error-handler-state-survives', None: 'program-end-differs'}[c.closer]
        viol(what, 'after the reset the closing %s printed %r, expected %r' % ((c.closer or 'END').upper(), tail[:120], etail[:120]))


def _check_script(c, box, viol, res, harness):
    """After RUN / CLEAR / NEW a history of OPTION BASE, DIM, ERASE and element accesses behaves as in a fresh session."""
    case_script = [t.encode('ascii') for t in c.script]
    got = [box.ex(t) for t in case_script]
    with harness.Box(budget=500) as fresh:
        want = [fresh.ex(t) for t in case_script]
    res.count('base_dim_erase_histories_replayed')
    res.count('base_dim_erase_statements', len(case_script))
    if any(w.endswith(b'Subscript out of range' + E) for w in want):
        res.count('history_with_subscript_error')
    if any(w.endswith(b'Duplicate Definition' + E) for w in want):
        res.count('history_with_duplicate_definition')
    for t, g, w in zip(c.script, got, want):
        if g != w:
            viol('option-base-dim-erase-history-differs-from-fresh-session',
                 'history %r: %r gives %r after the reset, %r in a fresh session' % (c.script, t, g, w))
            break


def _check_api(c, box, viol, res, harness, rnd_ref):
    chain = c.chain
    # arrays that must be there, with identical contents
    for f in sorted(c.keep_a):
        dims, cells, dimmed = c.arrays[f]
        want = _nested(dims, cells, c.base or 0, f[-1])
        got = box.get(f + '()')
        if got == want and f[-1] == '$':
            # the descriptors too: LEN as BASIC sees it
            idxs = sorted(cells)[:12]
            for k in range(0, len(idxs), 6):
                part = idxs[k:k + 6]
                stmt = 'PRINT ' + ';'.join('LEN(%s(%s))' % (f, ','.join('%d' % i for i in idx)) for idx in part)
                out = box.ex(stmt.encode('ascii'))
                exp = b''.join(b' %d ' % len(cells[idx][0]) for idx in part) + b'\r\n'
                if harness.err_of(out)[0] in (7, 14):
                    res.count('inconclusive_probes')
                elif out != exp:
                    viol('common-string-array-length-changed', '%s gives %r, expected %r' % (stmt, out, exp))
        if got == want:
            res.count('common_arrays_preserved')
            if f[-1] == '$':
                res.count('common_strings_preserved', sum(1 for v in cells.values() if v[0]))
        elif got == []:
            viol('common-array-lost', 'array %s is not dimensioned after the chain' % f)
        else:
            viol('common-string-array-content-changed' if f[-1] == '$' else 'common-array-content-changed',
                 'array %s: got %r expected %r' % (f, str(got)[:200], str(want)[:200]))
    # arrays that must be gone: DIM works again
    for f in sorted(set(c.arrays) - c.keep_a):
        got = box.get(f + '()')
        if got != []:
            viol('array-survives', 'array %s is still dimensioned: %r' % (f, str(got)[:120]))
            continue
        out = box.ex(('DIM %s(1)' % f).encode('ascii'))
        if out == b'':
            res.count('non_common_cleared')
        elif out == b'Duplicate Definition' + E:
            viol('array-survives', 'DIM %s(1) after the reset: %r' % (f, out))
        else:
            res.count('inconclusive_probes')        # e.g. Out of memory: says nothing about survival
    # scalars
    for f in c.probe_names:
        v = c.scalars.get(f)
        kept = f in c.keep_s
        try:
            got = box.get(f)
        except harness.error.BASICError:
            res.count('inconclusive_probes')        # reading creates the variable: no room for it
            continue
        if kept:
            if v is None:
                continue
            if got == v and type(got) == type(v):
                res.count('common_scalars_preserved')
                if f[-1] == '$' and v:
                    res.count('common_strings_preserved')
            elif got == _default(f[-1]):
                viol('common-string-lost' if f[-1] == '$' else 'common-scalar-lost', '%s is %r after the chain, expected %r' % (f, got, v))
            else:
                viol('common-string-content-changed' if f[-1] == '$' else 'common-scalar-value-changed',
                     '%s is %r after the chain, expected %r' % (f, got, v))
        else:
            if got == _default(f[-1]):
                res.count('non_common_cleared')
            else:
                viol('string-survives' if f[-1] == '$' else 'scalar-survives', '%s is %r after the reset, expected the default' % (f, got))
    # DEF FN
    if c.fns and not (chain and c.all_):
        for name in c.fns:
            out = box.ex(('PRINT %s(2)' % name).encode('ascii'))
            res.count('def_fn_probed')
            if out == b'Undefined user function' + E:
                pass
            elif harness.err_of(out)[0] == 0 and out.strip():
                viol('def-fn-survives', 'PRINT %s(2) after the reset: %r' % (name, out))
            else:
                res.count('inconclusive_probes')
    # DEFtype: an implicit name must be single precision again
    if not (chain and c.merge):
        for letter in sorted(l for l, s in c.deftype.items() if s != '!')[:2]:
            out = box.ex(('%sQ9=5' % letter).encode('ascii'))
            try:
                got = box.get('%sQ9!' % letter)
            except harness.error.BASICError:
                got = None
            res.count('deftype_probed')
            if out == b'' and got == 5.0:
                pass
            elif (out == b'' and got == 0.0) or out == b'Type mismatch' + E:
                # the value went into a variable of another type / the name is still a string name
                viol('deftype-survives', '%sQ9=5 after the reset printed %r and %sQ9! is %r (DEFtype was %s)' % (
                    letter, out, letter, got, c.deftype[letter]))
            else:
                res.count('inconclusive_probes')
    # OPTION BASE
    if c.base == 1 and not chain:
        out = box.ex(b'DIM ZB9%(2)')
        got = box.get('ZB9%()')
        res.count('option_base_probed')
        if out == b'' and len(got) == 3:
            pass
        elif out == b'' and len(got) == 2:
            viol('option-base-survives', 'DIM ZB9%%(2) after the reset gives %d elements (%r)' % (len(got), out))
        else:
            res.count('inconclusive_probes')
    # a handler that was active must be forgotten
    out = box.ex(b'RESUME')
    if out != b'RESUME without error' + E:
        viol('error-handler-state-survives', 'RESUME in direct mode after the reset: %r' % out[:120])
    # subroutine stack
    out = box.ex(b'RETURN')
    if out != b'RETURN without GOSUB' + E:
        viol('gosub-stack-survives', 'RETURN in direct mode after the reset: %r' % out[:120])
    # error trap
    if c.trap:
        out = box.ex(b'ERROR 77')
        res.count('trap_probed')
        if out == b'Deadlock' + E:
            pass
        elif b'OLDTRAP' in out or harness.err_of(out)[0] != 77:
            # the error did not come back as itself: something caught it
            viol('error-trap-survives', 'ERROR 77 after the reset: %r' % out[:120])
        else:
            res.count('inconclusive_probes')
    # random sequence
    if not chain and (c.rnd_moves or c.randomize is not None):
        out = box.ex(b'PRINT RND;RND')
        res.count('rnd_probed')
        if harness.err_of(out)[0] != 0:
            res.count('inconclusive_probes')
        elif out != rnd_ref:
            viol('rnd-sequence-survives', 'PRINT RND;RND after the reset: %r, fresh session: %r' % (out, rnd_ref))


# ---------------------------------------------------------------------------------------------------
# directed core (seed-independent): hand-written scenarios + fixed-seed generated cases

def _hand(action, p1, ctx=(), p2=None, p2name=None, direct=None, expected_out=b'', closer=None, scalars=None, keep_s=(),
          arrays=None, keep_a=(), fns=(), deftype=None, base=None, trap=False, rnd=0):
    c = Case()
    c.action, c.p1, c.ctx, c.p2, c.p2name, c.direct_action = action, p1, list(ctx), p2, p2name, direct
    c.expected_out, c.closer, c.closer_line = expected_out, closer, None
    c.scalars = dict(scalars or {})
    c.keep_s, c.keep_a = set(keep_s), set(keep_a)
    c.arrays = dict(arrays or {})
    c.fns, c.deftype, c.base, c.trap = list(fns), dict(deftype or {}), base, trap
    c.rnd_moves, c.randomize = rnd, None
    c.probe_names = sorted(set(c.scalars) | {'Z1%'})
    c.expect_tokens = []
    c.mem, c.long_strings, c.nontrivial_state = None, 0, True
    c.chain = action.startswith('chain')
    c.all_ = action in ('chain_all', 'chain_merge_all')
    c.merge = action.startswith('chain_merge')
    c.script = None
    return c


def script_cases():
    """Arrays dimensioned with / without OPTION BASE, then each reset statement, then each fixed history."""
    out = []
    states = [['10 DIM A(3):A(1)=2:Z(4)=1'], ['10 OPTION BASE 1:DIM A(3):A(1)=2'], ['10 A(2)=5:ERASE A:DIM Y%(2,2)']]
    for st in states:
        forms = [
            ('clear', st + ['20 CLEAR', '30 END'], None),
            ('clear_direct', st + ['20 END'], b'CLEAR'),
            ('run_line', st + ['20 RUN 40', '40 END'], None),
            ('run_direct', st + ['20 END', '40 END'], b'RUN 40'),
            ('new', st + ['20 NEW'], None),
            ('new_direct', st + ['20 END'], b'NEW'),
        ]
        for action, p1, direct in forms:
            for script in FIXED_SCRIPTS:
                c = _hand(action, p1, direct=direct)
                c.script = list(script)
                out.append(c)
    return out


def directed_cases():
    S = ['10 DEFINT A:OPTION BASE 1:A=5:B$="he"+"llo":C#=2.5:DIM D(3):D(2)=1.5:DIM E$(2):E$(1)=STRING$(200,65)+"z"',
         '20 DEF FNA(X)=X+1:ON ERROR GOTO 9000:RANDOMIZE 3:Q8=RND']
    T = ['9000 PRINT "OLDTRAP";ERR:END']
    sc = {'A%': 5, 'B$': b'hello', 'C#': 2.5}
    ar = {'D!': ([3], {(2,): (1.5, '')}, True), 'E$': ([2], {(1,): (b'A' * 200 + b'z', '')}, True)}
    full = dict(scalars=sc, arrays=ar, fns=['FNA'], deftype={'A': '%'}, base=1, trap=True, rnd=1)
    out = []
    out.append(_hand('clear', S + ['30 GOSUB 100', '40 PRINT "RETURNED":END', '100 CLEAR', '110 PRINT "#C"', '120 RETURN', '130 PRINT "CLOSED"'] + T,
                     ctx=['gosub'], expected_out=b'#C\r\nRETURN without GOSUB in 120' + E, closer='return', **full))
    out.append(_hand('clear', S + ['30 FOR I%=1 TO 3', '40 CLEAR', '50 PRINT "#C"', '60 NEXT', '70 PRINT "CLOSED"'] + T,
                     ctx=['for'], expected_out=b'#C\r\nNEXT without FOR in 60' + E, closer='next', **full))
    out.append(_hand('clear', S + ['30 W%=0:WHILE W%<2:W%=W%+1', '40 CLEAR', '50 PRINT "#C"', '60 WEND', '70 PRINT "CLOSED"'] + T,
                     ctx=['while'], expected_out=b'#C\r\nWEND without WHILE in 60' + E, closer='wend', **full))
    out.append(_hand('clear_direct', S + ['30 GOSUB 100', '40 PRINT "RETURNED":END', '100 FOR I%=1 TO 2:END', '110 NEXT:RETURN'] + T,
                     ctx=['gosub', 'for'], direct=b'CLEAR', **full))
    out.append(_hand('run_line', S + ['30 GOSUB 100', '40 PRINT "RETURNED":END', '100 RUN 200', '200 PRINT "#C"', '210 RETURN'] + T,
                     ctx=['gosub'], expected_out=b'#C\r\nRETURN without GOSUB in 210' + E, closer='return', **full))
    out.append(_hand('run_direct', S + ['30 GOSUB 100', '40 PRINT "RETURNED":END', '100 END', '200 PRINT "#C":END'] + T,
                     ctx=['gosub'], direct=b'RUN 200', expected_out=b'#C\r\n', **full))
    out.append(_hand('new', S + ['30 GOSUB 100', '40 PRINT "RETURNED":END', '100 NEW'] + T, ctx=['gosub'], **full))
    out.append(_hand('new_direct', S + ['30 GOSUB 100', '40 PRINT "RETURNED":END', '100 END'] + T, ctx=['gosub'], direct=b'NEW', **full))
    P2 = ['5000 PRINT "#C"', '5010 RETURN']
    ch = dict(full)
    out.append(_hand('chain', S + ['25 COMMON A,E$(),ZZ', '30 GOSUB 100', '40 PRINT "RETURNED":END', '100 CHAIN "P2"'] + T,
                     ctx=['gosub'], p2=P2, p2name='P2', expected_out=b'#C\r\nRETURN without GOSUB in 5010' + E, closer='return',
                     keep_s=['A%'], keep_a=['E$'], **ch))
    out.append(_hand('chain', S + ['30 CHAIN "P2",5000', '40 COMMON B$,C#,D()'] + T,
                     p2=P2, p2name='P2', expected_out=b'#C\r\nRETURN without GOSUB in 5010' + E, closer='return',
                     keep_s=['B$', 'C#'], keep_a=['D!'], **ch))
    # empty strings computed at run time between non-empty ones, scalars and array elements
    em = dict(scalars={'A$': b'xxxxx', 'B$': b'', 'C$': b'yyy', 'D$': b''},
              arrays={'E$': ([3], {(0,): (b'pq', ''), (1,): (b'', ''), (2,): (b'r', ''), (3,): (b'', '')}, True)})
    EM = ['10 A$=STRING$(5,"x"):B$=MID$(A$,1,0):C$=STRING$(3,"y"):D$=LEFT$(C$,0)',
          '15 DIM E$(3):E$(0)="p"+"q":E$(1)=MID$(E$(0),1,0):E$(2)="r"+"":E$(3)=SPACE$(0)']
    for com in ('COMMON A$,B$,C$,D$,E$()', 'COMMON D$,C$,E$(),B$,A$'):
        out.append(_hand('chain', EM + ['20 ' + com, '30 CHAIN "P2"'], p2=P2, p2name='P2',
                         expected_out=b'#C\r\nRETURN without GOSUB in 5010' + E, closer='return',
                         keep_s=['A$', 'B$', 'C$', 'D$'], keep_a=['E$'], **em))
    out.append(_hand('chain_all', EM + ['30 CHAIN "P2",,ALL'], p2=P2, p2name='P2',
                     expected_out=b'#C\r\nRETURN without GOSUB in 5010' + E, closer='return',
                     keep_s=['A$', 'B$', 'C$', 'D$'], keep_a=['E$'], **em))
    # a scalar and an array of the same name, only one of them COMMON
    tw = dict(scalars={'A!': 5.0, 'B$': b'sc'}, arrays={'A!': ([3], {(1,): (7.0, '')}, True), 'B$': ([2], {(2,): (b'arr', '')}, True)})
    TW = ['10 A=5:DIM A(3):A(1)=7:B$="s"+"c":DIM B$(2):B$(2)="ar"+"r"']
    out.append(_hand('chain', TW + ['20 COMMON A(),B$', '30 CHAIN "P2"'], p2=P2, p2name='P2',
                     expected_out=b'#C\r\nRETURN without GOSUB in 5010' + E, closer='return', keep_s=['B$'], keep_a=['A!'], **tw))
    out.append(_hand('chain', TW + ['20 COMMON A,B$()', '30 CHAIN "P2"'], p2=P2, p2name='P2',
                     expected_out=b'#C\r\nRETURN without GOSUB in 5010' + E, closer='return', keep_s=['A!'], keep_a=['B$'], **tw))
    out.append(_hand('chain_merge', TW + ['20 COMMON A(),B$()', '30 CHAIN MERGE "P2",5000'], p2=P2, p2name='P2',
                     expected_out=b'#C\r\nRETURN without GOSUB in 5010' + E, closer='return', keep_s=[], keep_a=['A!', 'B$'], **tw))
    out.append(_hand('chain_all', S + ['30 FOR I%=1 TO 2:CHAIN "P2",,ALL', '40 NEXT'] + T,
                     ctx=['for'], p2=P2, p2name='P2', expected_out=b'#C\r\nRETURN without GOSUB in 5010' + E, closer='return',
                     keep_s=['A%', 'B$', 'C#'], keep_a=['D!', 'E$'], **ch))
    out.append(_hand('chain_merge', S + ['25 COMMON C#,E$()', '30 CHAIN MERGE "P2",5000'] + T,
                     p2=P2, p2name='P2', expected_out=b'#C\r\nRETURN without GOSUB in 5010' + E, closer='return',
                     keep_s=['C#'], keep_a=['E$'], **ch))
    out.append(_hand('chain_merge_all', S + ['30 CHAIN MERGE "P2",5000,ALL,DELETE 9000-9000'] + T,
                     p2=P2, p2name='P2', expected_out=b'#C\r\nRETURN without GOSUB in 5010' + E, closer='return',
                     keep_s=['A%', 'B$', 'C#'], keep_a=['D!', 'E$'], **ch))
    return out


# ---------------------------------------------------------------------------------------------------
# a CHAIN that fails (file missing / wrong format), trapped or not, after which the program goes on and
# churns through more string space than there is: everything must still work

def gen_failed_chain(rng):
    c = {}
    stmt = rng.choice(['CHAIN "NOFILE"', 'CHAIN "NOFILE",500', 'CHAIN "NOFILE",,ALL', 'CHAIN "NOFILE",500,ALL', 'CHAIN MERGE "NOFILE",500',
                       'CHAIN MERGE "NOFILE",500,ALL', 'CHAIN MERGE "TOK",500', 'CHAIN MERGE "TOK",500,ALL'])
    code = 54 if '"TOK"' in stmt else 53
    trapped = rng.random() < 0.5
    n, k = rng.choice([(250, 200), (400, 150), (150, 250), (600, 100)])
    lines = []
    if trapped:
        lines.append('10 ON ERROR GOTO 900')
    lines.append('20 A$="keep"+"me":DIM L$(%d)' % rng.randint(1, 8))
    lines.append('30 FOR I%%=0 TO %d:L$(I%%)=STRING$(%d,66)+"y":NEXT' % (rng.randint(0, 1), rng.randint(20, 250)))
    if rng.random() < 0.6:
        lines.append('40 COMMON A$,L$()')
    lines.append('100 PRINT "before"')
    lines.append('110 %s' % stmt)
    lines.append('120 PRINT "after"')
    lines.append('500 FOR I%%=1 TO %d:B$=STRING$(%d,65+I%% MOD 20)+"x":NEXT' % (n, k))
    lines.append('510 PRINT "DONE";LEN(B$):END')
    lines.append('900 PRINT "T";ERR;ERL:RESUME NEXT')
    c['done'] = b'DONE %d \r\n' % (k + 1)
    c['msg'] = {53: b'File not found', 54: b'Bad file mode'}[code]
    c['lines'], c['stmt'], c['trapped'], c['code'] = lines, stmt, trapped, code
    return c


def run_failed_chain(c, res, harness):
    """
    Accepted: the error of the failed CHAIN is trapped by the program's handler (T code line, then "after") or it stops
    the program with its message (the statement does not pin whether the trap is still armed); then - continued by
    GOTO in the second case - the loop must complete.
    """
    case = {'lines': c['lines']}
    res.case('\n'.join(c['lines']))
    res.count('failed_chain_then_string_churn')
    fatal = b'before\r\n' + c['msg'] + b' in 110' + E
    trapped = b'before\r\nT %d  110 \r\nafter\r\n' % c['code'] + c['done']
    wrong_format = '"TOK"' in c['stmt']       # (which error a tokenised file gives to CHAIN MERGE is not pinned here)
    try:
        with harness.Box(budget=8000) as box:
            # a tokenised program file: CHAIN MERGE needs plain text, so merging it fails
            box.run([b'10 PRINT 1'])
            box.ex(b'SAVE "TOK"')
            out = box.run([l.encode('ascii') for l in c['lines']], budget=8000)
            if wrong_format:
                code, line = harness.err_of(out)
                if code > 0 and line == 110 and out.startswith(b'before\r\n') and out.count(b'\r\n') == 2:
                    fatal = out
                elif out.startswith(b'before\r\nT ') and out.endswith(b'after\r\n' + c['done']):
                    trapped = out
            if out == fatal:
                res.count('failed_chain_stopped_the_program')
                out += box.ex(b'GOTO 500', 8000)
                expected = fatal + c['done']
            else:
                res.count('failed_chain_was_trapped')
                expected = trapped
    except harness.Internal as e:
        res.violation(e.key, str(e), case)
        return
    if out != expected:
        if out.startswith(expected[:-len(c['done'])]):
            what = 'string-churn-after-failed-chain-does-not-complete'
        else:
            what = 'failed-chain-not-reported-as-expected'
        res.violation('chain-fails:%s' % what, '%s (%s) then a loop through more string space than there is: printed %r, expected %r'
                      % (c['stmt'], 'with a trap set' if c['trapped'] else 'without trap', out[-160:], expected[-80:]), case)


def _fresh_rnd(harness):
    with harness.Box() as box:
        return box.ex(b'PRINT RND;RND')


def run_shard(spec, res):
    from .. import harness
    rnd_ref = _fresh_rnd(harness)
    if spec['kind'] == 'directed':
        for c in directed_cases():
            res.count('directed_cases')
            run_case(c, res, harness, rnd_ref)
        for c in script_cases():
            res.count('directed_cases')
            run_case(c, res, harness, rnd_ref)
        for i in range(40):
            run_failed_chain(gen_failed_chain(random.Random('C23:failed-chain:%d' % i)), res, harness)
            res.count('directed_cases')
        for i in range(60):
            c = gen_case(random.Random('C23:directed:%d' % i))
            res.count('directed_cases')
            run_case(c, res, harness, rnd_ref)
        res.sample({'kind': 'directed', 'case': _jsonable_case(directed_cases()[8])})
        return
    rng = random.Random('%s:C23:%s:%s' % (spec['seed'], spec['kind'], spec.get('part', 0)))
    for i in range(spec['n']):
        if rng.random() < 0.06:
            run_failed_chain(gen_failed_chain(rng), res, harness)
            continue
        c = gen_case(rng)
        run_case(c, res, harness, rnd_ref)
        if i < 1 and spec.get('part', 0) < 3:
            res.sample({'kind': 'random', 'case': _jsonable_case(c)})
