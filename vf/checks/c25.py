"""
C25 Random-access files behave as arrays of fixed-length records.

Oracle: R-FILE record-array model (vf.models.c25_randfile) driven in lock-step with a real
sandboxed Session working on a native mount; after every GET the FIELD variables are compared
with the model buffer, after every PUT/GET LOF and LOC are compared with reclen*highest and
the last record accessed, after every CLOSE the host file is read with plain Python I/O and
compared with the model image.
"""
import os
import random

from ..models import c25_randfile as M

META = {
    'property_id': 'C25',
    'technique': 'lock-step record-array reference model + host read-back over seeded FIELD/LSET/RSET/PUT/GET histories',
    'level': 'exploration',
    'level_text': (
        'Runtime oracle on a native mount: seeded histories of OPEN (three syntaxes, reclen 1..128), FIELD (full and partial '
        'layouts, re-FIELD), LSET/RSET, PUT/GET with explicit (literal, %, !, # variable) and implicit record numbers, gaps of '
        '1..40 records beyond the end, repeats, 1-3 files open together, CLOSE/reopen under the same or another LEN and file number; record contents over all 256 byte values weighted to 1A/00/0D/0A/FF at field, record and file ends. Checked after every step: FIELD variables '
        '= model buffer after GET (bytes last PUT, zeros for unwritten records below the end) and after LSET/RSET; LOF = reclen x '
        'highest record written; LOC = last record accessed; record numbers outside 1..2^25 give error 63 and change nothing '
        'observable; host file bytes = model image after CLOSE. Directed core (gap reproducers incl. the D5 shape reclen 2 / one '
        'record / PUT #1,4 for every reclen 1..8, boundary record numbers) in both tiers.'),
    'level_note': (
        'Trusted: Python file I/O, Session.set_variable/get_variable for strings. Pinned from the tree (GW-BASIC delivers a NUL buffer): GET at / after the end and of a short tail record gives NUL-padded contents. Not pinned and not judged: buffer contents right after OPEN (the model treats them as unknown until a GET or a '
        'complete LSET), LOC before the first access, fractional record numbers, record numbers 2^25+1 .. 2^25+3 (their single-'
        'precision value is 2^25), PUT at record numbers that would need files above a few hundred KB (the upper bound 2^25 is '
        'exercised with GET only), two numbers on the same file (C26).'),
    'rule': ('case = one history (files with reclen and FIELD layouts, list of operations with operands); distinct by the expanded '
             'history; non-trivial = at least one PUT and one GET'),
    'design_ref': 'DESIGN.md section 4 C25',
    'assumptions': ['host file I/O through Python is correct', 'LSET/RSET = left/right justify, blank pad, truncate on the right'],
    'require_counters': {'any': ['short_tail_records_read', 'reopens_of_file_ending_in_1A', 'reopens_with_other_reclen', 'puts', 'gets', 'gets_beyond_end', 'implicit_after_get_beyond_end', 'gaps_written', 'gap_records_read_zero', 'implicit_positions', 'bad_recno_refused',
                                 'reopens', 'host_images_compared']},
    'timeout': {'quick': 900, 'thorough': 10800},
}


def plan(tier, seed):
    shards = [{'kind': 'directed', 'part': 0}]
    if tier == 'quick':
        for i in range(11):
            shards.append({'kind': 'random', 'part': i, 'n': 175})
    else:
        for i in range(40):
            shards.append({'kind': 'random', 'part': i, 'n': 1200})
    return shards


# ---------------------------------------------------------------------------------------
# generator

def _rand_reclen(rng):
    r = rng.random()
    if r < 0.3:
        return rng.randint(1, 4)
    if r < 0.5:
        return rng.choice([8, 16, 32, 64, 127, 128])
    return rng.randint(1, 128)


def _layout(rng, reclen, fno, gen, full):
    """FIELD layout: list of (name, width); widths >= 1 summing to reclen (full) or less."""
    total = reclen if full else rng.randint(1, reclen)
    nf = min(total, rng.choice([1, 1, 2, 3, 4]))
    cuts = sorted(rng.sample(range(1, total), nf - 1)) if nf > 1 else []
    widths = [b - a for a, b in zip([0] + cuts, cuts + [total])]
    return [('%s%d%s$' % ('ABCD'[k], fno, 'X' * gen), w) for k, w in enumerate(widths)]


SPECIAL = b'\x1a\x00\r\n\xff'     # end-of-file byte, NUL, CR, LF, 0xFF: weighted at field / record / file ends


def _rand_data(rng, w):
    n = rng.choice([0, 1, w - 1, w, w, w + 1, w + 5, rng.randint(0, w + 3)])
    n = max(0, min(255, n))
    x = rng.random()
    if x < 0.45:
        data = bytes(rng.getrandbits(8) for _ in range(n))
    elif x < 0.75:
        data = bytes(rng.choice(b'abcdefgh 0123\x00\xff') for _ in range(n))
    else:
        data = bytes(rng.choice(SPECIAL) for _ in range(n))
    if rng.random() < 0.4:
        # a special byte exactly at the end of the field (the field is filled completely), and often at its start
        n = max(w, 1)
        data = (data + bytes(rng.getrandbits(8) for _ in range(n)))[:n - 1] + bytes([rng.choice(SPECIAL)])
        if rng.random() < 0.4:
            data = bytes([rng.choice(SPECIAL)]) + data[1:]
    return data


BAD_RECNOS = ['0', '-1', '-32768', '33554440', '4E7', '1E10', '2147483648', '-1E10', '33554436']


def gen_history(rng):
    """Expanded, JSON-able history. The generator runs the model itself to keep operations meaningful."""
    nfiles = rng.choice([1, 1, 2, 3])
    files = {}
    ops = []
    images = {}
    chans = {}
    names = ['RF%d.DAT' % i for i in range(3)]

    def do_open(fno, name):
        reclen = images[name].reclen if name in images else _rand_reclen(rng)
        if name not in images:
            images[name] = M.FileImage(reclen)
        elif images[name].highest and rng.random() < 0.3:
            # re-open with another record length that divides the file length (so LOF = reclen x records stays pinned)
            total = images[name].lof()
            divs = [d for d in range(1, 129) if total % d == 0 and d != reclen]
            if rng.random() < 0.4:
                # any record length: the file may then end in a short tail record
                reclen = rng.choice([d for d in range(1, 129) if d != reclen])
                images[name] = images[name].reshaped(reclen)
            elif divs:
                reclen = rng.choice(divs)
                images[name] = images[name].reshaped(reclen)
        ch = chans[fno] = M.Channel(images[name])
        full = images[name].highest == 0 or rng.random() < 0.7
        lay = _layout(rng, reclen, fno, 0, full)
        ch.field(lay)
        ch.full = full
        ch.name = name
        ops.append({'op': 'open', 'f': fno, 'name': name, 'reclen': reclen, 'syntax': rng.randrange(3), 'layout': lay})
        if not full:
            # buffer contents after OPEN are not pinned: start with a GET of an existing record
            r = rng.randint(1, images[name].highest)
            ch.get(r)
            ops.append({'op': 'get', 'f': fno, 'r': r, 'form': 'lit'})
        if images[name].short_tail():
            # dirty the buffer with a full record (or LSETs), then GET the short tail record: must come NUL padded
            H = images[name].highest
            if H > 1:
                r = rng.randint(1, H - 1)
                ch.get(r)
                ops.append({'op': 'get', 'f': fno, 'r': r, 'form': 'lit'})
            for fname, off, w in list(ch.fields):
                data = bytes(rng.choice(b'#@XYZ\xff\x1a') for _ in range(w))
                ch.lset(fname, data)
                ops.append({'op': 'lset', 'f': fno, 'var': fname, 'data': data})
            ch.get(H)
            ops.append({'op': 'get', 'f': fno, 'r': H, 'form': rng.choice(['lit', 'dbl']), 'tail': True})

    for k in range(nfiles):
        do_open(k + 1, names[k])
    nops = rng.randint(10, 45)
    for _ in range(nops):
        open_f = sorted(chans)
        if not open_f:
            fno = rng.randint(1, 3)
            do_open(fno, rng.choice([n for n in names]))
            continue
        fno = rng.choice(open_f)
        ch = chans[fno]
        img = ch.image
        x = rng.random()
        if x < 0.30:
            # LSET / RSET some fields
            for name, off, w in list(ch.fields):
                if rng.random() < 0.6 or not ch.known():
                    data = _rand_data(rng, w)
                    how = 'rset' if rng.random() < 0.3 else 'lset'
                    getattr(ch, how)(name, data)
                    ops.append({'op': how, 'f': fno, 'var': name, 'data': data})
        elif x < 0.62:
            # PUT
            if not ch.known():
                for name, off, w in list(ch.fields):
                    data = _rand_data(rng, w)
                    ch.lset(name, data)
                    ops.append({'op': 'lset', 'f': fno, 'var': name, 'data': data})
                if not ch.known():
                    continue
            y = rng.random()
            H = img.highest
            if y < 0.25:
                r = None
                if ch.next_record() > H + 41:
                    r = H + 1
            elif y < 0.45 and H:
                r = rng.randint(1, H)
            elif y < 0.65:
                r = H + 1
            else:
                r = H + 1 + rng.randint(1, 40)
            if (r or ch.next_record()) * img.reclen > 400000:
                continue
            form = 'none' if r is None else rng.choice(['lit', 'lit', 'int', 'sng', 'dbl', 'nohash'])
            ch.put(r)
            ops.append({'op': 'put', 'f': fno, 'r': r, 'form': form})
        elif x < 0.88:
            H = img.highest
            if rng.random() < 0.18 and (H + 42) * img.reclen <= 400000:
                # GET beyond the end: contents unpinned (not judged), but LOC and the implicit position are pinned
                r = H + rng.choice([1, 1, 1, 2, rng.randint(1, 40)])
                if rng.random() < 0.7:
                    # dirty the buffer first: the GET must replace all of it with NULs
                    if H and rng.random() < 0.5:
                        q = rng.randint(1, H)
                        ch.get(q)
                        ops.append({'op': 'get', 'f': fno, 'r': q, 'form': 'lit'})
                    for fname, off, w in list(ch.fields):
                        data = bytes(rng.choice(b'#@XYZ\xff\x1a') for _ in range(w))
                        ch.lset(fname, data)
                        ops.append({'op': 'lset', 'f': fno, 'var': fname, 'data': data})
                ch.get(r)
                ops.append({'op': 'get', 'f': fno, 'r': r, 'form': rng.choice(['lit', 'lit', 'int', 'sng', 'dbl', 'nohash'])})
                y = rng.random()
                if y < 0.5:
                    # complete the buffer, then PUT without a record number: must address record r+1
                    for name, off, w in list(ch.fields):
                        data = _rand_data(rng, w)
                        how = 'rset' if rng.random() < 0.3 else 'lset'
                        getattr(ch, how)(name, data)
                        ops.append({'op': how, 'f': fno, 'var': name, 'data': data})
                    if ch.known():
                        ch.put(None)
                        ops.append({'op': 'put', 'f': fno, 'r': None, 'form': 'none', 'after_beyond': True})
                elif y < 0.75:
                    ch.get(None)
                    ops.append({'op': 'get', 'f': fno, 'r': None, 'form': 'none', 'after_beyond': True})
                continue
            if not H:
                continue
            if rng.random() < 0.3 and ch.next_record() <= H:
                r = None
            else:
                r = rng.randint(1, H)
            ch.get(r)
            ops.append({'op': 'get', 'f': fno, 'r': r, 'form': 'none' if r is None else rng.choice(['lit', 'lit', 'int', 'sng', 'dbl', 'nohash'])})
        elif x < 0.93:
            ops.append({'op': rng.choice(['badput', 'badget']), 'f': fno, 'r': rng.choice(BAD_RECNOS)})
        elif x < 0.95 and img.highest:
            # upper bound is legal (GET only: a PUT there would need a 32 MB .. 4 GB file)
            ch.get(M.MAX_RECORD)
            ops.append({'op': 'get', 'f': fno, 'r': M.MAX_RECORD, 'form': 'lit', 'beyond': True})
            # come back with an explicit access so that no implicit position follows 2^25
            r = rng.randint(1, img.highest)
            ch.get(r)
            ops.append({'op': 'get', 'f': fno, 'r': r, 'form': 'lit'})
        elif x < 0.97:
            # second FIELD statement: another view on the same buffer
            lay = _layout(rng, img.reclen, fno, 1, rng.random() < 0.5)
            ch.field(lay)
            ops.append({'op': 'field', 'f': fno, 'layout': lay})
        else:
            ops.append({'op': 'close', 'f': fno})
            name = ch.name
            del chans[fno]
            if rng.random() < 0.8:
                do_open(rng.choice([n for n in (1, 2, 3) if n not in chans]), name if rng.random() < 0.8 else
                        rng.choice([n for n in names if n not in [c.name for c in chans.values()]]))
    for fno in sorted(chans):
        ops.append({'op': 'close', 'f': fno})
    return {'ops': ops}


# ---------------------------------------------------------------------------------------
# runner

class Stop(Exception):
    pass


def run_history(box, case, res):
    from .. import harness
    images = {}
    chans = {}
    nput = nget = 0

    def fail(key, what):
        res.violation(key, what, case)
        raise Stop()

    def ok(cmd, what):
        out = box.ex(cmd)
        code, _ = harness.err_of(out)
        if code or out.strip():
            fail('stmt:unexpected-error:%s' % what, '%r -> %r' % (cmd, out))

    def recno_arg(op):
        form, r = op['form'], op['r']
        if form == 'none':
            return b''
        if form in ('lit', 'nohash'):
            return b', %d' % r
        var = {'int': 'R%', 'sng': 'R!', 'dbl': 'R#'}[form]
        if form == 'int' and r > 32767:
            var = 'R!'
        box.set(var, r)
        return b', ' + var.encode()

    def check_lof_loc(fno, ch, ctx):
        lof = box.ev(b'LOF(%d)' % fno)
        res.count('lof_checks')
        if lof != ch.image.lof():
            fail('%s:lof-not-reclen-times-highest-record' % ctx,
                 'LOF(%d)=%r, expected %d x %d = %d' % (fno, lof, ch.image.reclen, ch.image.highest, ch.image.lof()))
        if ch.last:
            loc = box.ev(b'LOC(%d)' % fno)
            res.count('loc_checks')
            if loc != ch.last:
                fail('%s:loc-not-last-record-accessed' % ctx, 'LOC(%d)=%r, last record accessed is %d' % (fno, loc, ch.last))

    def check_views(fno, ch, ctx, r=None):
        for name, off, w in ch.fields:
            want = ch.view(name)
            if want is None:
                continue
            got = box.get(name)
            if got != want:
                fail(ctx, '%s of #%d (record %s): %r, expected %r' % (name, fno, r, got, want))

    for op in case['ops']:
        kind = op['op']
        fno = op['f']
        if kind == 'open':
            name, reclen = op['name'], op['reclen']
            reopened = name in images
            if not reopened:
                images[name] = M.FileImage(reclen)
            else:
                res.count('reopens')
                if images[name].reclen != reclen:
                    images[name] = images[name].reshaped(reclen)
                    res.count('reopens_with_other_reclen')
                if images[name].image()[-1:] in (b'\x1a', b'\x00', b'\r', b'\n', b'\xff'):
                    res.count('reopens_of_file_ending_in_special_byte')
                if images[name].image()[-1:] == b'\x1a':
                    res.count('reopens_of_file_ending_in_1A')
            ch = chans[fno] = M.Channel(images[name])
            ch.name = name
            nm = name.encode()
            if op['syntax'] == 0:
                ok(b'OPEN "R",#%d,"%s",%d' % (fno, nm, reclen), 'open')
            elif op['syntax'] == 1:
                ok(b'OPEN "%s" FOR RANDOM AS #%d LEN=%d' % (nm, fno, reclen), 'open')
            else:
                ok(b'OPEN "%s" AS %d LEN=%d' % (nm, fno, reclen), 'open')
            ch.field(op['layout'])
            ok(b'FIELD #%d, %s' % (fno, b', '.join(b'%d AS %s' % (w, n.encode()) for n, w in op['layout'])), 'field')
            lof = box.ev(b'LOF(%d)' % fno)
            res.count('lof_checks')
            if lof != ch.image.lof():
                fail('open:lof-not-reclen-times-highest-record', 'LOF(%d)=%r right after OPEN, expected %d' % (fno, lof, ch.image.lof()))
            continue
        ch = chans[fno]
        if kind == 'field':
            ch.field(op['layout'])
            ok(b'FIELD #%d, %s' % (fno, b', '.join(b'%d AS %s' % (w, n.encode()) for n, w in op['layout'])), 'field')
            res.count('refields')
            check_views(fno, ch, 'field:second-view-differs-from-buffer')
        elif kind in ('lset', 'rset'):
            box.set('T$', op['data'])
            ok(b'%s %s=T$' % (kind.upper().encode(), op['var'].encode()), kind)
            getattr(ch, kind)(op['var'], op['data'])
            res.count('lsets' if kind == 'lset' else 'rsets')
            check_views(fno, ch, 'field:%s-value' % kind)
        elif kind == 'put':
            H = ch.image.highest
            target = op['r'] if op['r'] is not None else ch.next_record()
            if target > H + 1:
                ctx = 'put:gap'
                res.count('gaps_written')
                res.maxc('max_gap_records', target - H - 1)
            elif target == H + 1:
                ctx = 'put:append'
            else:
                ctx = 'put:overwrite'
            if op['r'] is None:
                res.count('implicit_positions')
            if op.get('after_beyond'):
                res.count('implicit_after_get_beyond_end')
                ctx = 'put:implicit-after-get-beyond-end'
            hash_ = b'' if op['form'] == 'nohash' else b'#'
            ok(b'PUT %s%d%s' % (hash_, fno, recno_arg(op)), 'put')
            ch.put(op['r'])
            nput += 1
            res.count('puts')
            if ctx == 'put:implicit-after-get-beyond-end':
                lof = box.ev(b'LOF(%d)' % fno)
                if lof != ch.image.lof():
                    fail('put:implicit-after-get-beyond-end:wrong-record', 'reclen %d, %d records, GET #%d,%d then PUT #%d must write record %d: LOF=%r, expected %d'
                         % (ch.image.reclen, H, fno, target - 1, fno, target, lof, ch.image.lof()))
            if ctx == 'put:gap':
                # name the mechanism: the record did not land at reclen*(r-1)
                lof = box.ev(b'LOF(%d)' % fno)
                if lof != ch.image.lof():
                    fail('put:gap-record-misplaced', 'reclen %d, file had %d records, PUT #%d,%d: LOF=%r, expected %d'
                         % (ch.image.reclen, H, fno, target, lof, ch.image.lof()))
            check_lof_loc(fno, ch, ctx)
        elif kind == 'get':
            if op['r'] is None:
                res.count('implicit_positions')
            hash_ = b'' if op['form'] == 'nohash' else b'#'
            ok(b'GET %s%d%s' % (hash_, fno, recno_arg(op)), 'get')
            r = ch.get(op['r'])
            nget += 1
            res.count('gets')
            if op.get('after_beyond'):
                res.count('implicit_after_get_beyond_end')
            if r > ch.image.highest:
                # at / beyond the end: every FIELD variable must read NUL (whatever the buffer held before); LOF must not move, LOC must be r
                res.count('upper_bound_accepted' if op.get('beyond') else 'gets_beyond_end')
                lof = box.ev(b'LOF(%d)' % fno)
                if lof != ch.image.lof():
                    fail('get:beyond-end-changes-lof', 'GET #%d,%d changed LOF to %r' % (fno, r, lof))
                check_views(fno, ch, 'get:at-or-beyond-end-not-nul', r)
                check_lof_loc(fno, ch, 'get-beyond-end')
                continue
            if r == ch.image.highest and ch.image.short_tail():
                res.count('short_tail_records_read')
                check_views(fno, ch, 'get:short-tail-record-not-nul-padded', r)
                check_lof_loc(fno, ch, 'get')
                continue
            if r not in ch.image.records:
                res.count('gap_records_read_zero')
                check_views(fno, ch, 'get:gap-record-not-zero', r)
            else:
                check_views(fno, ch, 'get:record-differs-from-last-put', r)
            check_lof_loc(fno, ch, 'get')
        elif kind in ('badput', 'badget'):
            out = box.ex(b'%s #%d, %s' % (b'PUT' if kind == 'badput' else b'GET', fno, op['r'].encode()))
            code, _ = harness.err_of(out)
            if code != 63:
                fail('recno:out-of-range-not-error-63', '%s #%d, %s -> %r' % (kind[3:].upper(), fno, op['r'], out))
            res.count('bad_recno_refused')
            lof = box.ev(b'LOF(%d)' % fno)
            if lof != ch.image.lof():
                fail('recno:refused-access-changed-file', 'LOF=%r after a refused %s, expected %d' % (lof, kind, ch.image.lof()))
        elif kind == 'close':
            ok(b'CLOSE #%d' % fno, 'close')
            del chans[fno]
            try:
                with open(box.path(ch.name), 'rb') as f:
                    raw = f.read()
            except (IOError, OSError):
                raw = None
            res.count('host_images_compared')
            want = ch.image.image()
            if raw != want:
                if raw is None:
                    fail('close:host-file-missing', 'no host file %s' % ch.name)
                fail('close:host-image-differs',
                     'host file %s has %d bytes, model %d bytes (reclen %d, highest %d); first difference at %d'
                     % (ch.name, len(raw), len(want), ch.image.reclen, ch.image.highest,
                        next((i for i in range(min(len(raw), len(want))) if raw[i] != want[i]), min(len(raw), len(want)))))
    res.count('histories')
    return nput, nget


# ---------------------------------------------------------------------------------------
# directed core

def directed_cases():
    cases = []
    # D5 shape: small record length, few records, PUT far beyond the end
    for reclen in range(1, 9):
        for have in (1, 2, 3):
            for target in (have + 2, have + 3, have * reclen + 2, have * reclen + 5, 30):
                if target <= have + 1:
                    continue
                ops = [{'op': 'open', 'f': 1, 'name': 'D5.DAT', 'reclen': reclen, 'syntax': 0, 'layout': [('A1$', reclen)]}]
                for r in range(1, have + 1):
                    ops.append({'op': 'lset', 'f': 1, 'var': 'A1$', 'data': bytes([0x40 + r]) * reclen})
                    ops.append({'op': 'put', 'f': 1, 'r': r, 'form': 'lit'})
                ops.append({'op': 'lset', 'f': 1, 'var': 'A1$', 'data': b'Z' * reclen})
                ops.append({'op': 'put', 'f': 1, 'r': target, 'form': 'lit'})
                ops.append({'op': 'get', 'f': 1, 'r': target, 'form': 'lit'})
                ops.append({'op': 'get', 'f': 1, 'r': target - 1, 'form': 'lit'})
                ops.append({'op': 'get', 'f': 1, 'r': have, 'form': 'lit'})
                ops.append({'op': 'close', 'f': 1})
                cases.append({'ops': ops})
    # gap on an empty file, implicit positions, reopen and read everything back
    for reclen in (1, 2, 7, 64, 128):
        lay = [('A1$', reclen)] if reclen < 3 else [('A1$', 1), ('B1$', reclen - 2), ('C1$', 1)]
        ops = [{'op': 'open', 'f': 1, 'name': 'G.DAT', 'reclen': reclen, 'syntax': 1, 'layout': lay}]
        for n, w in lay:
            ops.append({'op': 'lset', 'f': 1, 'var': n, 'data': b'abcdefghijk'})
        ops += [{'op': 'put', 'f': 1, 'r': 5, 'form': 'lit'}, {'op': 'put', 'f': 1, 'r': None, 'form': 'none'}]
        for n, w in lay:
            ops.append({'op': 'rset', 'f': 1, 'var': n, 'data': b'xy'})
        ops += [{'op': 'put', 'f': 1, 'r': 2, 'form': 'int'}, {'op': 'put', 'f': 1, 'r': None, 'form': 'none'},
                {'op': 'get', 'f': 1, 'r': 1, 'form': 'lit'}]
        ops += [{'op': 'get', 'f': 1, 'r': None, 'form': 'none'} for _ in range(5)]
        ops += [{'op': 'close', 'f': 1}, {'op': 'open', 'f': 2, 'name': 'G.DAT', 'reclen': reclen, 'syntax': 2, 'layout': [('A2$', reclen)]}]
        ops += [{'op': 'get', 'f': 2, 'r': r, 'form': 'dbl'} for r in (6, 4, 3, 2, 1, 5)]
        ops += [{'op': 'close', 'f': 2}]
        cases.append({'ops': ops})
    # GET beyond the end, then LOC and implicit positions
    for reclen in (1, 2, 7, 128):
        for have in (0, 1, 3):
            for dist in (1, 2, 40):
                for follow in ('put', 'get-put', 'loc'):
                    ops = [{'op': 'open', 'f': 1, 'name': 'E.DAT', 'reclen': reclen, 'syntax': 0, 'layout': [('A1$', reclen)]}]
                    for r in range(1, have + 1):
                        ops += [{'op': 'lset', 'f': 1, 'var': 'A1$', 'data': bytes([0x60 + r]) * reclen}, {'op': 'put', 'f': 1, 'r': r, 'form': 'lit'}]
                    r = have + dist
                    ops.append({'op': 'get', 'f': 1, 'r': r, 'form': 'lit'})
                    if follow == 'get-put':
                        ops.append({'op': 'get', 'f': 1, 'r': None, 'form': 'none', 'after_beyond': True})
                        r += 1
                    if follow != 'loc':
                        ops += [{'op': 'lset', 'f': 1, 'var': 'A1$', 'data': b'W' * reclen},
                                {'op': 'put', 'f': 1, 'r': None, 'form': 'none', 'after_beyond': True},
                                {'op': 'get', 'f': 1, 'r': r + 1, 'form': 'lit'}, {'op': 'get', 'f': 1, 'r': r, 'form': 'lit'}]
                    ops.append({'op': 'close', 'f': 1})
                    cases.append({'ops': ops})
    # files whose last byte is a special byte: CLOSE, re-OPEN (same LEN / other LEN / other number), read back, re-CLOSE
    for last in SPECIAL:
        for reclen, reclen2 in ((1, 1), (4, 4), (4, 2), (4, 8), (128, 64), (3, 6)):
            for nrec in (2, 4):
                ops = [{'op': 'open', 'f': 1, 'name': 'S.DAT', 'reclen': reclen, 'syntax': 0, 'layout': [('A1$', reclen)]}]
                for r in range(1, nrec + 1):
                    body = bytes([0x40 + r]) * (reclen - 1) + bytes([last])
                    ops += [{'op': 'rset', 'f': 1, 'var': 'A1$', 'data': body}, {'op': 'put', 'f': 1, 'r': r, 'form': 'lit'}]
                nrec2 = nrec * reclen // reclen2
                ops += [{'op': 'close', 'f': 1},
                        {'op': 'open', 'f': 2, 'name': 'S.DAT', 'reclen': reclen2, 'syntax': 1, 'layout': [('A2$', reclen2)]},
                        {'op': 'get', 'f': 2, 'r': nrec2, 'form': 'lit'}, {'op': 'get', 'f': 2, 'r': 1, 'form': 'lit'},
                        {'op': 'close', 'f': 2},
                        {'op': 'open', 'f': 1, 'name': 'S.DAT', 'reclen': reclen, 'syntax': 2, 'layout': [('A1$', reclen)]},
                        {'op': 'get', 'f': 1, 'r': nrec, 'form': 'lit'}, {'op': 'put', 'f': 1, 'r': nrec, 'form': 'lit'}, {'op': 'close', 'f': 1}]
                cases.append({'ops': ops})
    # dirty buffer, then GET right after the end / far after it / of a short tail record after re-OPEN with another LEN
    for reclen, reclen2 in ((4, 3), (4, 8), (5, 2), (2, 128), (7, 4), (128, 100)):
        for nrec in (1, 3):
            ops = [{'op': 'open', 'f': 1, 'name': 'N.DAT', 'reclen': reclen, 'syntax': 0, 'layout': [('A1$', reclen)]}]
            for r in range(1, nrec + 1):
                ops += [{'op': 'lset', 'f': 1, 'var': 'A1$', 'data': bytes([0x30 + r]) * reclen}, {'op': 'put', 'f': 1, 'r': r, 'form': 'lit'}]
            ops += [{'op': 'get', 'f': 1, 'r': nrec, 'form': 'lit'}, {'op': 'get', 'f': 1, 'r': None, 'form': 'none'},
                    {'op': 'lset', 'f': 1, 'var': 'A1$', 'data': b'#' * reclen}, {'op': 'get', 'f': 1, 'r': nrec + 7, 'form': 'lit'},
                    {'op': 'get', 'f': 1, 'r': 1, 'form': 'lit'}, {'op': 'get', 'f': 1, 'r': nrec + 1, 'form': 'lit'}, {'op': 'close', 'f': 1}]
            total = nrec * reclen
            tail = -(-total // reclen2)
            lay2 = [('A2$', reclen2)] if reclen2 < 3 else [('A2$', 1), ('B2$', reclen2 - 1)]
            ops += [{'op': 'open', 'f': 2, 'name': 'N.DAT', 'reclen': reclen2, 'syntax': 1, 'layout': lay2}]
            for n_, w_ in lay2:
                ops.append({'op': 'lset', 'f': 2, 'var': n_, 'data': b'@' * w_})
            if tail > 1:
                ops.append({'op': 'get', 'f': 2, 'r': 1, 'form': 'lit'})
            ops += [{'op': 'get', 'f': 2, 'r': tail, 'form': 'lit', 'tail': True}, {'op': 'get', 'f': 2, 'r': None, 'form': 'none'},
                    {'op': 'get', 'f': 2, 'r': tail, 'form': 'lit', 'tail': True}, {'op': 'put', 'f': 2, 'r': tail, 'form': 'lit'},
                    {'op': 'get', 'f': 2, 'r': tail, 'form': 'lit'}, {'op': 'close', 'f': 2}]
            cases.append({'ops': ops})
    # record number range
    ops = [{'op': 'open', 'f': 1, 'name': 'B.DAT', 'reclen': 4, 'syntax': 0, 'layout': [('A1$', 4)]},
           {'op': 'lset', 'f': 1, 'var': 'A1$', 'data': b'data'}, {'op': 'put', 'f': 1, 'r': 1, 'form': 'lit'}]
    for b in BAD_RECNOS:
        ops += [{'op': 'badput', 'f': 1, 'r': b}, {'op': 'badget', 'f': 1, 'r': b}]
    ops += [{'op': 'get', 'f': 1, 'r': M.MAX_RECORD, 'form': 'lit', 'beyond': True}, {'op': 'get', 'f': 1, 'r': 1, 'form': 'lit'},
            {'op': 'close', 'f': 1}]
    cases.append({'ops': ops})
    return cases


def _run_cases(res, cases, directed=False):
    from .. import harness
    box = None
    try:
        for i, case in enumerate(cases):
            if box is None:
                box = harness.Box(budget=20000)
            if i < 2:
                res.sample(case)
            nput = nget = 0
            try:
                nput, nget = run_history(box, case, res)
            except Stop:
                nput = nget = 1
            except harness.Internal as e:
                res.violation(e.key, str(e), case)
            except harness.error.BASICError as e:
                res.violation('api:variable-access-error', 'get/set_variable raised %r' % (e,), case)
            res.case(repr(case), nontrivial=bool(nput and nget))
            try:
                box.ex(b'CLOSE')
                box.ex(b'NEW')
            except harness.Internal:
                box.close()
                box = None
                continue
            for f in os.listdir(box.mount):
                try:
                    os.remove(os.path.join(box.mount, f))
                except OSError:
                    pass
    finally:
        if box is not None:
            box.close()


def run_shard(spec, res):
    kind = spec['kind']
    rng = random.Random('%s:C25:%s:%s' % (spec['seed'], kind, spec.get('part', 0)))
    if kind == 'directed':
        cases = directed_cases()
        res.count('directed_cases', len(cases))
        return _run_cases(res, cases, directed=True)
    cases = [gen_history(rng) for _ in range(spec['n'])]
    return _run_cases(res, cases)
