"""
C04 Floating-point arithmetic stays within a fixed error of the exact result.

Oracle: exact rational arithmetic (vf.models.rnum / c03_mbf Fractions) on the operand and result
BYTES against
 (a) the real values.add/sub/mul/div on raw MBF patterns, with the REAL FloatErrorHandler in its
     soft configuration (recording console), so both the error class and the payload are seen, and
 (b) the BASIC level: R$=MKS$(CVS(S$)*CVS(T$)) etc. in a real session (soft messages in the
     captured output, result bytes through the string variable).
"""
import random
import time
from fractions import Fraction

from ..models import rnum
from ..models import c03_mbf as mbf

META = {
    'property_id': 'C04',
    'technique': 'reference-model monitor (exact rationals vs result bytes) over directed and random MBF operand pairs, API and BASIC level',
    'level': 'exploration',
    'level_text': (
        'Runtime oracle: for + - * / on single, double and mixed operands the exact rational result is computed from the '
        'operand bytes and compared with the decoded result bytes: |error| <= 2 ulp(result) for + -, < 1 ulp(result) for * /; '
        'Overflow iff the exact magnitude exceeds the maximum (payload = signed maximum); Division by zero for every zero '
        'divisor encoding (payload = maximum with the dividend\'s sign); zero result only when |exact| < 2^-129. '
        'Seed-independent core: all pairs of a 454-value boundary table per precision (25 exponent bytes x 9 mantissas x 2 '
        'signs + zero encodings) under all four operators; plus random pairs from 11 classes (uniform bytes, equal/adjacent/'
        'far exponents, near-cancellation, range-edge products and quotients, zeros incl. non-canonical).'),
    'level_note': (
        'Trusted: Python Fraction arithmetic, the harness. Not pinned by the statement and accepted either way: an exact '
        'magnitude within the error bound above the maximum (finite in-bound result or Overflow) or within the bound '
        'below it (Overflow accepted, since the rounded result may exceed the maximum); a result below 2^-129 (zero or any '
        'in-bound value); the sign of the payload of 0/0; the encoding chosen for a zero result. ulp is measured at the '
        'binade of the returned result. Integer operands are not part of this property.'),
    'rule': ('case = (operator, left pattern, right pattern); distinct by that triple; non-trivial = both operands are '
             'non-zero or the operator is / with a zero divisor (directed blocks are duplicate-free by construction and '
             'counted by the enumerating loop; random pairs are hashed)'),
    'design_ref': 'DESIGN.md section 4 C04',
    'assumptions': ['MBF layout as documented in vf/models/rnum.py', 'exact rational arithmetic as reference'],
    'require_counters': {'any': ['overflow_seen', 'underflow_to_zero_seen', 'div_zero_seen', 'inexact_results',
                                 'cancellation_seen', 'noncanonical_zero_operand_seen', 'basic_cases',
                                 'basic_soft_overflow_seen', 'basic_soft_div_zero_seen']},
    'timeout': {'quick': 900, 'thorough': 10800},
}

OPS = ['add', 'sub', 'mul', 'div']
SYM = {'add': b'+', 'sub': b'-', 'mul': b'*', 'div': b'/'}
UTOP = {4: Fraction(2) ** (127 - 24), 8: Fraction(2) ** (127 - 56)}


def plan(tier, seed):
    shards = []
    if tier == 'quick':
        for n in (4, 8):
            for i in range(4):
                shards.append({'kind': 'directed', 'size': n, 'part': i, 'parts': 4})
        for n in (4, 8):
            for i in range(4):
                shards.append({'kind': 'random', 'size': n, 'part': i, 'n': 40000})
        shards.append({'kind': 'mixed', 'part': 0, 'n': 40000})
        shards.append({'kind': 'mixed', 'part': 1, 'n': 40000})
        for i in range(3):
            shards.append({'kind': 'basic', 'part': i, 'n': 6000})
    else:
        for n in (4, 8):
            for i in range(4):
                shards.append({'kind': 'directed', 'size': n, 'part': i, 'parts': 4})
        for n in (4, 8):
            for i in range(16):
                shards.append({'kind': 'random', 'size': n, 'part': i, 'n': 350000})
        for i in range(4):
            shards.append({'kind': 'mixed', 'part': i, 'n': 250000})
        for i in range(8):
            shards.append({'kind': 'basic', 'part': i, 'n': 50000})
    return shards


def exact_result(op, fa, fb):
    if op == 'add':
        return fa + fb
    if op == 'sub':
        return fa - fb
    if op == 'mul':
        return fa * fb
    return fa / fb


def judge(res, level, op, a, b, out):
    """
    out = ('ok', bytes) | ('err', code, payload|None).  Reports violations; returns nothing.
    """
    n = max(len(a), len(b))
    tn = mbf.TYPENAME[n] if len(a) == len(b) else 'mixed'
    pre = '%s:%s:%s:' % (level, op, tn)
    case = [op, a, b]
    fa, fb = mbf.frac(a), mbf.frac(b)

    def desc():
        return '%s %s %s (%r %s %r) -> %s' % (a.hex(), op, b.hex(), float(fa), SYM[op].decode(), float(fb),
                                             (out[0],) + tuple(x.hex() if isinstance(x, bytes) else x for x in out[1:]))
    if out[0] == 'host':
        res.violation('internal:%s@values.%s' % (out[1], op), 'host exception %s: %s %s %s' % (out[2], a.hex(), op, b.hex()), case)
        return
    if len(out) > 3:
        res.count('multiple_soft_messages_seen')     # not pinned by the statement: informational
    if op == 'div' and fb == 0:
        res.count('div_zero_seen')
        if out[0] != 'err' or out[1] != 11:
            res.violation(pre + 'division-by-zero-not-raised', desc(), case)
            return
        pay = out[2]
        if pay is not None:
            ok = (pay == mbf.POS_MAX[n] and fa >= 0) or (pay == mbf.NEG_MAX[n] and fa <= 0)
            if not ok:
                res.violation(pre + 'division-by-zero-payload-not-signed-max', desc(), case)
        return
    ex = exact_result(op, fa, fb)
    aex = abs(ex)
    inclusive, B = (True, 2) if op in ('add', 'sub') else (False, 1)
    if out[0] == 'err':
        if out[1] != 6:
            res.violation(pre + 'error-class', desc(), case)
            return
        res.count('overflow_seen')
        if not (aex > mbf.MAXV[n] - B * UTOP[n]):
            res.violation(pre + 'overflow-in-range', desc() + ' exact magnitude %r is representable' % float(aex), case)
            return
        pay = out[2]
        if pay is not None and pay != (mbf.POS_MAX[n] if ex > 0 else mbf.NEG_MAX[n]):
            res.violation(pre + 'overflow-payload-not-signed-max', desc(), case)
        return
    r = out[1]
    if len(r) != n:
        res.violation(pre + 'result-type', desc() + ' expected a %d-byte result' % n, case)
        return
    if r[-1] == 0:
        # zero result
        if ex == 0:
            res.count('exact_results')
            return
        if aex < mbf.MINPOS:
            res.count('underflow_to_zero_seen')
            return
        res.violation(pre + 'underflow-to-zero-above-min',
                      desc() + ' but exact result %r (2^%d) is representable' % (float(ex), _log2(aex)), case)
        return
    fr = mbf.frac(r)
    err = abs(fr - ex)
    if err == 0:
        res.count('exact_results')
        return
    res.count('inexact_results')
    u = mbf.ulp_of(r)
    if (err <= B * u) if inclusive else (err < B * u):
        mu = int(err * 1000 / u)
        res.maxc('max_milliulp_%s_%s' % (op, tn), mu)
        return
    if aex > mbf.MAXV[n] + B * UTOP[n]:
        key = 'overflow-missed'
    elif (fr > 0) != (ex > 0):
        key = 'wrong-sign'
    elif err > 1000 * u:
        key = 'gross-error'
    else:
        key = 'error-bound-exceeded'
    res.violation(pre + key, desc() + ' exact %r, error %.3f ulp' % (float(ex), float(err / u)), case)


def _log2(f):
    return f.numerator.bit_length() - f.denominator.bit_length()


def _observe_operands(res, op, a, b):
    if (a[-1] == 0 and any(a[:-1])) or (b[-1] == 0 and any(b[:-1])):
        res.count('noncanonical_zero_operand_seen')
    elif op in ('add', 'sub') and a[-1] and b[-1] and abs(a[-1] - b[-1]) <= 1:
        # effective subtraction of close magnitudes
        sa, sb = a[-2] & 0x80, b[-2] & 0x80
        if (sa != sb) == (op == 'add'):
            res.count('cancellation_seen')


def _api():
    from ..gen import c04_api as sapi
    V = sapi.V
    return sapi, {'add': V.add, 'sub': V.sub, 'mul': V.mul, 'div': V.div}


def _call(sapi, fn, a, b):
    try:
        return sapi.binop(fn, a, b)
    except Exception as e:
        return ('host', type(e).__name__, repr(e))


def run_shard(spec, res):
    kind = spec['kind']
    t0 = time.process_time()
    rng = random.Random('%s:C04:%s:%s' % (spec['seed'], kind + str(spec.get('size', '')), spec.get('part', 0)))
    mbf.selftest(random.Random('%s:C04:selftest' % spec['seed']), 150)
    from ..gen import c04_watch
    try:
        c04_watch.guarded_run(res, _run, spec, kind, rng, res)
    finally:
        res.count('shard_cpu_ms', int((time.process_time() - t0) * 1000))


def _run(w, spec, kind, rng, res):
    from ..gen import c04_pairs as gp
    if kind == 'basic':
        return _basic(w, spec, rng, res)
    sapi, fns = _api()
    if kind == 'directed':
        n = spec['size']
        vals = gp.boundary_values(n)
        lefts = vals[spec['part']::spec['parts']]
        cnt = 0
        for a in lefts:
            for b in vals:
                for op in OPS:
                    _observe_operands(res, op, a, b)
                    w.cur = (op, a, b)
                    judge(res, 'api', op, a, b, _call(sapi, fns[op], a, b))
                cnt += 4
        res.bulk(cnt, cnt)
        res.count('directed_pairs', cnt // 4)
        res.sample({'kind': kind, 'precision': mbf.TYPENAME[n], 'table_size': len(vals), 'left_operands': len(lefts),
                    'first_values': [v.hex() for v in vals[:6]], 'operators': OPS})
    elif kind == 'random':
        n = spec['size']
        for i in range(spec['n']):
            cls = gp.PAIR_CLASSES[i % len(gp.PAIR_CLASSES)]
            a, b = gp.pair(rng, n, cls)
            for op in OPS:
                _observe_operands(res, op, a, b)
                w.cur = (op, a, b)
                out = _call(sapi, fns[op], a, b)
                judge(res, 'api', op, a, b, out)
                res.case((op, a, b), nontrivial=bool((a[-1] and b[-1]) or (op == 'div' and not b[-1])))
            if i < 2:
                res.sample({'kind': kind, 'class': cls, 'a': a.hex(), 'b': b.hex(), 'op': 'mul',
                            'exact': float(mbf.frac(a) * mbf.frac(b)), 'result': repr(_call(sapi, fns['mul'], a, b))})
    elif kind == 'mixed':
        for i in range(spec['n']):
            cls = gp.PAIR_CLASSES[i % len(gp.PAIR_CLASSES)]
            a, b = gp.pair(rng, 8, cls)
            # one operand becomes a single (its top four bytes: same exponent and leading mantissa)
            if i & 1:
                a = a[4:]
            else:
                b = b[4:]
            for op in OPS:
                w.cur = (op, a, b)
                out = _call(sapi, fns[op], a, b)
                judge(res, 'api', op, a, b, out)
                res.case((op, a, b), nontrivial=bool((a[-1] and b[-1]) or (op == 'div' and not b[-1])))
            if i < 1:
                res.sample({'kind': kind, 'class': cls, 'a': a.hex(), 'b': b.hex()})
    else:
        raise ValueError(kind)


def _basic(w, spec, rng, res):
    from .. import harness
    from ..gen import c04_pairs as gp
    CV = {4: b'CVS', 8: b'CVD'}
    MK = {4: b'MKS$', 8: b'MKD$'}
    SIG = {4: b'!', 8: b'#'}
    directed = {4: gp.boundary_values(4, small=True), 8: gp.boundary_values(8, small=True)}
    with harness.Box() as box:
        for i in range(spec['n']):
            r = rng.random()
            na = nb = 4 if (i % 2 == 0) else 8
            if r < 0.12:
                na, nb = rng.choice(((4, 8), (8, 4)))
            if rng.random() < 0.25:
                a, b = rng.choice(directed[na]), rng.choice(directed[nb])
            else:
                cls = gp.PAIR_CLASSES[i % len(gp.PAIR_CLASSES)]
                a, b = gp.pair(rng, max(na, nb), cls)
                a, b = a[-na:], b[-nb:]
            op = OPS[(i // 2) % 4]
            n = max(na, nb)
            use_vars = rng.random() < 0.4
            w.cur = ('basic-' + op, a, b)
            try:
                box.set('S$', a)
                box.set('T$', b)
                box.set('R$', b'')
                if use_vars:
                    stmt = (b'A' + SIG[na] + b'=' + CV[na] + b'(S$):B' + SIG[nb] + b'=' + CV[nb] + b'(T$):R$=' + MK[n]
                            + b'(A' + SIG[na] + SYM[op] + b'B' + SIG[nb] + b')')
                else:
                    stmt = b'R$=' + MK[n] + b'(' + CV[na] + b'(S$)' + SYM[op] + CV[nb] + b'(T$))'
                out = box.ex(stmt)
                rb = box.get('R$')
            except harness.Internal as e:
                res.violation(e.key, str(e), [op, a, b])
                if type(e.exc).__name__ == 'Hang':
                    return
                continue
            code, _ = harness.err_of(out)
            if code:
                got = ('err', code, None)
            elif out == b'':
                got = ('ok', rb)
            else:
                lines = [l for l in out.split(b'\r\n') if l]
                codes = [harness.ERRMSG.get(l, -1) for l in lines]
                got = ('err', codes[0], rb) if len(codes) == 1 else ('err', codes[0], rb, 'multiple-messages')
                if codes[0] == 6:
                    res.count('basic_soft_overflow_seen')
                elif codes[0] == 11:
                    res.count('basic_soft_div_zero_seen')
            if not isinstance(got[1], (bytes, int)) or (got[0] == 'ok' and not isinstance(rb, bytes)):
                res.violation('basic:%s:unreadable-result' % op, 'statement %r gave %r / %r' % (stmt, out, rb), [op, a, b])
                continue
            judge(res, 'basic', op, a, b, got)
            res.case((b'basic', op, a, b, use_vars))
            res.count('basic_cases')
            if i < 3:
                res.sample({'kind': 'basic', 'statement': stmt, 'S$': a.hex(), 'T$': b.hex(), 'output': out, 'R$': rb})
