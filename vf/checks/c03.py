"""
C03 Numeric conversions and binary encodings are exact and consistent.

Oracle: exact integer/rational reference on the result BYTES (vf.models.c03_mbf, cross-checked
against the Fraction model vf.models.rnum at the start of every shard) against
 (a) the real values-level primitives cint_/fix_/int_/csng_/cdbl_, Integer.to_hex/from_hex/...
     (volume), and
 (b) the BASIC level: Session.evaluate / execute of CINT, FIX, INT, CSNG, CDBL, MKI$/MKS$/MKD$,
     CVI/CVS/CVD, HEX$/OCT$ + VAL("&H..") and &H literals, with operands planted as raw bytes
     through CVS/CVD of a string variable (wiring: values.py, functions table, tokeniser).
"""
import random
import time

from ..models import rnum
from ..models import c03_mbf as mbf

META = {
    'property_id': 'C03',
    'technique': 'reference-model monitor (exact MBF/integer model on result bytes) over enumerated and random bit patterns, API and BASIC level',
    'level': 'exploration',
    'level_text': (
        'Runtime oracle: every observed result/error of CINT, FIX, INT, CSNG, CDBL, MKx$/CVx, HEX$/OCT$/&H/&O is '
        'compared with an exact integer model of the MBF encodings. All 65536 integers are enumerated in both tiers '
        '(HEX$/OCT$ re-read through VAL and through a literal, MKI$/CVI, CINT of the integral singles/doubles); '
        'singles/doubles are sampled: a seed-independent boundary table (every exponent byte x extreme mantissas, all '
        'k+1/2 for |k|<=70000, the 16-bit range ends, non-canonical zeros, the 256 carry-byte values around single '
        'midpoints) plus random patterns; the thorough tier sweeps every 16th single mantissa and all integer-part x '
        'critical-fraction mantissas at 12 exponents.'),
    'level_note': (
        'Trusted: Python int/Fraction arithmetic, the harness. Not pinned by the statement and therefore accepted either '
        'way: the type of the FIX/INT result (only its value is checked); CSNG of a double whose upper neighbour would '
        'need exponent byte 256 (Overflow or the largest single accepted); the neighbour chosen when the double lies '
        'within (<=) 1/256 single-ulp of the midpoint. CVx is only given strings of exactly 2/4/8 bytes. '
        'The "stored binary form" of a variable is read through the scalar memory view (read-only) and, on a sample, '
        'through PEEK(VARPTR()).'),
    'rule': ('case = (function, operand bit pattern); distinct by that pair; non-trivial = the operand is not a canonical zero '
             '(enumerated blocks are duplicate-free by construction and counted by the enumerating loop; random '
             'patterns are hashed)'),
    'design_ref': 'DESIGN.md section 4 C03',
    'assumptions': ['MBF layout as documented in vf/models/rnum.py', 'plain Python integers as reference'],
    'exhaustive': {'quick': 'all 65536 integers for HEX$/OCT$ -> &H/&O (VAL and literal), MKI$/CVI, CINT/CDBL of integral singles and doubles (floats sampled)',
                   'thorough': 'same integer space; floats: every 16th single mantissa + critical fractions at 12 exponents (sampled, not exhaustive)'},
    'require_counters': {'any': ['cint_overflow_seen', 'cint_tie_seen', 'int_negative_nonintegral_seen',
                                 'csng_tie_zone_seen', 'csng_round_up_seen', 'csng_round_down_seen',
                                 'noncanonical_zero_seen', 'basic_cases', 'hexoct_roundtrips']},
    'timeout': {'quick': 900, 'thorough': 10800},
}

THOROUGH_EXPS = [128, 129, 143, 144, 145, 151, 152, 153, 127, 104, 1, 255]


def plan(tier, seed):
    shards = []
    if tier == 'quick':
        shards.append({'kind': 'int16_api'})
        for i in range(4):
            shards.append({'kind': 'int16_basic', 'part': i, 'parts': 4})
        for i in range(3):
            shards.append({'kind': 'single_directed', 'part': i, 'parts': 3})
        for i in range(2):
            shards.append({'kind': 'double_directed', 'part': i, 'parts': 2})
        for i in range(3):
            shards.append({'kind': 'single_random', 'part': i, 'n': 60000})
        for i in range(3):
            shards.append({'kind': 'double_random', 'part': i, 'n': 60000})
        for i in range(2):
            shards.append({'kind': 'csng_midpoints', 'part': i, 'n': 150})
        for i in range(3):
            shards.append({'kind': 'basic_conv', 'part': i, 'n': 6000})
    else:
        shards.append({'kind': 'int16_api'})
        for i in range(4):
            shards.append({'kind': 'int16_basic', 'part': i, 'parts': 4})
        for i in range(3):
            shards.append({'kind': 'single_directed', 'part': i, 'parts': 3})
        for i in range(2):
            shards.append({'kind': 'double_directed', 'part': i, 'parts': 2})
        for e in THOROUGH_EXPS:
            for j in range(4):
                shards.append({'kind': 'single_sweep', 'exp': e, 'part': j, 'parts': 4})
        for i in range(12):
            shards.append({'kind': 'single_random', 'part': i, 'n': 250000})
        for i in range(16):
            shards.append({'kind': 'double_random', 'part': i, 'n': 300000})
        for i in range(8):
            shards.append({'kind': 'csng_midpoints', 'part': i, 'n': 1200})
        for i in range(8):
            shards.append({'kind': 'basic_conv', 'part': i, 'n': 40000})
    return shards


# ---------------------------------------------------------------------------------------------
# oracle on one float pattern (API level)

class _NoWatch(object):
    cur = None


class Api(object):
    def __init__(self, w=None):
        self.w = w if w is not None else _NoWatch()
        from .. import numapi
        self.numapi = numapi
        self.V = numapi.V
        self.N = numapi.N

    def un(self, fn, b):
        """call a values function that takes an argument iterator"""
        self.w.cur = (fn.__name__, b)
        try:
            return self.numapi.call(fn, [self.numapi.num(b)])
        except Exception as e:  # host exception out of a primitive
            return ('host', '%s' % type(e).__name__, repr(e))


def _host(res, fname, got, b):
    res.violation('internal:%s@values.%s' % (got[1], fname), 'host exception %s for operand %s' % (got[2], b.hex()), [fname, b])


def check_cint(res, api, b, level='api', got=None):
    tn = mbf.TYPENAME[len(b)]
    exp_i = mbf.round_half_away_int(b)
    if got is None:
        got = api.un(api.V.cint_, b)
    if got[0] == 'host':
        return _host(res, 'cint_', got, b)
    tie = mbf.is_tie(b)
    if tie:
        res.count('cint_tie_seen')
    inrange = -32768 <= exp_i <= 32767
    if got[0] == 'err':
        if got[1] == 6:
            res.count('cint_overflow_seen')
        if inrange or got[1] != 6:
            res.violation('%s:cint:%s:%s' % (level, tn, 'overflow-in-range' if got[1] == 6 else 'error-class'),
                          'CINT of %s (=%s): error %s, expected %d' % (b.hex(), float(mbf.frac(b)), got[1], exp_i), ['cint', b])
        return
    r = got[1]
    if len(r) != 2:
        res.violation('%s:cint:%s:result-not-integer' % (level, tn), 'CINT of %s gave %s' % (b.hex(), r.hex()), ['cint', b])
        return
    if not inrange:
        res.violation('%s:cint:%s:overflow-missed' % (level, tn),
                      'CINT of %s (rounds to %d): no Overflow, got %s' % (b.hex(), exp_i, r.hex()), ['cint', b])
        return
    gi = int.from_bytes(r, 'little', signed=True)
    if gi != exp_i:
        if tie:
            key = 'tie-rounding'
        elif gi == mbf.trunc_int(b):
            key = 'truncated-not-rounded'
        else:
            key = 'rounding'
        res.violation('%s:cint:%s:%s' % (level, tn, key),
                      'CINT of %s (=%r): got %d expected %d' % (b.hex(), float(mbf.frac(b)), gi, exp_i), ['cint', b])


def check_fix_int(res, api, b, level='api', got_fix=None, got_int=None):
    tn = mbf.TYPENAME[len(b)]
    t = mbf.trunc_int(b)
    fl = mbf.floor_int(b)
    if fl != t:
        res.count('int_negative_nonintegral_seen')
    if not mbf.is_integral(b):
        res.count('fraction_nonzero_seen')
    for fname, fn, want, got in (('fix', api.V.fix_ if api else None, t, got_fix), ('int', api.V.int_ if api else None, fl, got_int)):
        if got is None:
            got = api.un(fn, b)
        if got[0] == 'host':
            _host(res, fname + '_', got, b)
            continue
        if got[0] == 'err':
            res.violation('%s:%s:%s:error-raised' % (level, fname, tn), '%s of %s: error %s' % (fname.upper(), b.hex(), got[1]), [fname, b])
            continue
        r = got[1]
        if mbf.value_eq_int(r, want):
            continue
        s, m, k = mbf.parts(b)
        if fname == 'int' and fl != t and mbf.value_eq_int(r, t):
            key = 'negative-truncated-not-floored'
        elif fname == 'int' and fl == t and s < 0 and mbf.value_eq_int(r, t - 1):
            key = 'negative-integer-decremented'
        elif fname == 'fix' and fl != t and mbf.value_eq_int(r, fl):
            key = 'negative-floored-not-truncated'
        elif mbf.value_eq_int(r, mbf.round_half_away_int(b)):
            key = 'rounded-not-truncated'
        else:
            key = 'wrong-value'
        res.violation('%s:%s:%s:%s' % (level, fname, tn, key),
                      '%s of %s (=%r): got %s (=%r) expected %d' % (fname.upper(), b.hex(), float(mbf.frac(b)), r.hex(),
                                                                   float(mbf.frac(r)) if len(r) in (2, 4, 8) else None, want), [fname, b])


def check_cdbl(res, api, b, level='api', got=None):
    if got is None:
        got = api.un(api.V.cdbl_, b)
    if got[0] == 'host':
        return _host(res, 'cdbl_', got, b)
    if got[0] == 'err':
        res.violation('%s:cdbl:error-raised' % level, 'CDBL of single %s: error %s' % (b.hex(), got[1]), ['cdbl', b])
        return
    r = got[1]
    if len(r) != 8:
        res.violation('%s:cdbl:result-not-double' % level, 'CDBL of %s gave %s' % (b.hex(), r.hex()), ['cdbl', b])
    elif mbf.parts(r) != _scaled(mbf.parts(b)):
        res.violation('%s:cdbl:value-changed' % level, 'CDBL of single %s (=%r) gave %s (=%r)' % (
            b.hex(), float(mbf.frac(b)), r.hex(), float(mbf.frac(r))), ['cdbl', b])


def _scaled(p):
    """(sign, M, k) of a single re-expressed with a 56-bit mantissa"""
    s, m, k = p
    if s == 0:
        return p
    return (s, m << 32, k - 32)


def check_csng(res, api, d, level='api', got=None):
    """d: double encoding"""
    if got is None:
        got = api.un(api.V.csng_, d)
    if got[0] == 'host':
        return _host(res, 'csng_', got, d)
    s, m, k = mbf.parts(d)
    if got[0] == 'ok' and len(got[1]) != 4:
        res.violation('%s:csng:result-not-single' % level, 'CSNG of %s gave %s' % (d.hex(), got[1].hex()), ['csng', d])
        return
    if s == 0:
        if got[0] != 'ok' or got[1][-1] != 0:
            res.violation('%s:csng:zero-changed' % level, 'CSNG of zero %s gave %r' % (d.hex(), got), ['csng', d])
        return
    lo, hi, rem = mbf.single_neighbours(d)
    HALF, ZONE = 1 << 31, 1 << 24
    dist = abs(rem - HALF)
    if got[0] == 'err':
        if got[1] == 6:
            res.count('csng_overflow_seen')
        if got[1] == 6 and hi is None and rem:
            return      # upper neighbour does not exist: statement does not pin this edge
        res.violation('%s:csng:%s' % (level, 'overflow-in-range' if got[1] == 6 else 'error-class'),
                      'CSNG of %s: error %s' % (d.hex(), got[1]), ['csng', d])
        return
    r = got[1]
    if rem == 0:
        res.count('csng_exact_seen')
        if r != lo:
            res.violation('%s:csng:exact-value-changed' % level, 'CSNG of %s (a single value) gave %s expected %s' % (
                d.hex(), r.hex(), lo.hex()), ['csng', d])
        return
    if dist <= ZONE:
        res.count('csng_tie_zone_seen')
    if r == lo:
        res.count('csng_round_down_seen')
    elif hi is not None and r == hi:
        res.count('csng_round_up_seen')
    else:
        res.violation('%s:csng:not-a-neighbour' % level, 'CSNG of %s gave %s; neighbours %s / %s' % (
            d.hex(), r.hex(), lo.hex(), hi.hex() if hi else None), ['csng', d])
        return
    if hi is None:
        return
    if dist > ZONE:
        nearer = lo if rem < HALF else hi
        if r != nearer:
            res.violation('%s:csng:wrong-neighbour' % level,
                          'CSNG of %s gave %s, the farther neighbour (position %.6f of a single ulp above %s)' % (
                              d.hex(), r.hex(), rem / 4294967296.0, lo.hex()), ['csng', d])


def check_single(res, api, b):
    check_cint(res, api, b)
    check_fix_int(res, api, b)
    check_cdbl(res, api, b)
    if b[-1] == 0 and b != b'\0\0\0\0':
        res.count('noncanonical_zero_seen')
    return 4


def check_double(res, api, d):
    check_cint(res, api, d)
    check_fix_int(res, api, d)
    check_csng(res, api, d)
    if d[-1] == 0 and d != b'\0' * 8:
        res.count('noncanonical_zero_seen')
    return 4


# ---------------------------------------------------------------------------------------------
# directed tables (seed independent)

def single_directed_table():
    out = []
    f = 23
    full = (1 << f) - 1
    for e in range(256):
        for m in (0, 1, full, full - 1, 1 << 22, (1 << 22) + 1, (1 << 22) - 1):
            for neg in (False, True):
                out.append(mbf.pack(4, e, m, neg))
    # all k + 1/2, |k| <= 70000 (both signs), and the values one single-ulp below/above a few of them
    for k in range(0, 70001):
        v2 = 2 * k + 1      # numerator over 2
        l = v2.bit_length()
        m = v2 << (24 - l)
        e = 128 + l - 1
        out.append(mbf.pack(4, e, m, False))
        out.append(mbf.pack(4, e, m, True))
    # the 16-bit range ends and their neighbours
    for base in (32767, 32768, 32769, 16384, 65535, 65536, 1, 2, 0x7fffff, 0x800000, 0xffffff):
        b0 = mbf.from_int(base, 4) if base < (1 << 24) else None
        if b0 is None:
            continue
        raw = int.from_bytes(b0[:-1], 'little') & 0x7fffff
        mag = (b0[-1] << 23) | raw
        for d in range(-160, 161):
            mg = mag + d
            for neg in (False, True):
                out.append(mbf.pack(4, mg >> 23, mg & 0x7fffff, neg))
    return out


def double_directed_table():
    out = []
    f = 55
    full = (1 << f) - 1
    for e in range(256):
        for m in (0, 1, full, full - 1, 1 << 54, (1 << 54) + 1, (1 << 54) - 1, 0xffffff80000000, 0xffffff7fffffff,
                  0x7fffff80000000, 0x7fffff80000001, 0x7fffff81000000, 0x7fffff7f000000 & full):
            for neg in (False, True):
                out.append(mbf.pack(8, e, m & full, neg))
    # k + 1/2 and the doubles just below / above it, |k| <= 33000 step pattern
    ks = list(range(0, 1200)) + list(range(32700, 32800)) + [65535, 65536, 70000, 16383, 16384, 8388607, 8388608, 2 ** 31, 2 ** 40]
    for k in ks:
        v2 = 2 * k + 1
        l = v2.bit_length()
        m = v2 << (56 - l)
        e = 128 + l - 1
        for dm in (-1, 0, 1, -256, 256, -(1 << 31), 1 << 31, -(1 << 32), 1 << 32):
            mg = ((e << 55) | (m & full)) + dm
            for neg in (False, True):
                out.append(mbf.pack(8, mg >> 55, mg & full, neg))
    # integers around the 16-bit ends with tiny fractions
    for base in (32767, 32768, 32769, 1, 2, 255, 256):
        b0 = mbf.from_int(base, 8)
        mag = (b0[-1] << 55) | (int.from_bytes(b0[:-1], 'little') & full)
        for dm in (-2, -1, 0, 1, 2, -(1 << 32), 1 << 32, -(1 << 39), 1 << 39, (1 << 39) - 1, -(1 << 39) - 1, (1 << 39) + 1):
            for neg in (False, True):
                mg = mag + dm
                out.append(mbf.pack(8, mg >> 55, mg & full, neg))
    return out


def carry_block(hi3, e, neg, lows):
    """doubles with the given top 23 mantissa bits, every carry byte 0..255, and the given low 24-bit tails"""
    out = []
    for c in range(256):
        for low in lows:
            out.append(mbf.pack(8, e, (hi3 << 32) | (c << 24) | low, neg))
    return out


# ---------------------------------------------------------------------------------------------

def run_shard(spec, res):
    kind = spec['kind']
    t0 = time.process_time()
    rng = random.Random('%s:C03:%s:%s' % (spec['seed'], kind, spec.get('part', 0)))
    mbf.selftest(random.Random('%s:C03:selftest' % spec['seed']), 150)
    from ..gen import c04_watch
    try:
        c04_watch.guarded_run(res, _run, spec, kind, rng, res)
    finally:
        res.count('shard_cpu_ms', int((time.process_time() - t0) * 1000))


def _run(w, spec, kind, rng, res):
    from ..gen import c04_pairs as gp
    if kind == 'int16_api':
        return _int16_api(w, res)
    if kind == 'int16_basic':
        return _int16_basic(w, spec, res)
    if kind == 'basic_conv':
        return _basic_conv(w, spec, rng, res)
    api = Api(w)
    if kind == 'single_directed':
        tab = single_directed_table()[spec['part']::spec['parts']]
        n = 0
        for b in tab:
            n += check_single(res, api, b)
        res.bulk(n, 4 * len(set(tab)))
        res.sample({'kind': kind, 'patterns': len(tab), 'first': [b.hex() for b in tab[:4]],
                    'functions': ['CINT', 'FIX', 'INT', 'CDBL']})
    elif kind == 'double_directed':
        tab = double_directed_table()[spec['part']::spec['parts']]
        n = 0
        for d in tab:
            n += check_double(res, api, d)
        res.bulk(n, 4 * len(set(tab)))
        res.sample({'kind': kind, 'patterns': len(tab), 'first': [b.hex() for b in tab[:4]],
                    'functions': ['CINT', 'FIX', 'INT', 'CSNG']})
    elif kind == 'single_random':
        for i in range(spec['n']):
            r = rng.random()
            if r < 0.55:
                b = gp.rfloat(rng, 4, rng.randint(0x7e, 0x9a))
            elif r < 0.6:
                b = gp.rzero(rng, 4)
            elif r < 0.8:
                b = gp.rbytes(rng, 4)
            else:
                b = gp.rfloat(rng, 4)
            check_single(res, api, b)
            res.case(b, nontrivial=(b != b'\0\0\0\0'))
            if i < 2:
                res.sample({'kind': kind, 'operand': b.hex(), 'value': float(mbf.frac(b)),
                            'cint_expected': mbf.round_half_away_int(b)})
        res.evaluations += 3 * spec['n']
    elif kind == 'double_random':
        for i in range(spec['n']):
            r = rng.random()
            if r < 0.45:
                d = gp.rfloat(rng, 8, rng.randint(0x7e, 0x9a))
            elif r < 0.5:
                d = gp.rzero(rng, 8)
            elif r < 0.65:
                d = gp.rbytes(rng, 8)
            elif r < 0.8:
                # near a single midpoint
                hi3 = rng.getrandbits(23)
                c = rng.choice((0x7f, 0x80, 0x80, 0x81, 0x7e, 0x82, rng.getrandbits(8)))
                low = rng.choice((0, 1, 0xffffff, rng.getrandbits(24)))
                d = mbf.pack(8, rng.choice((rng.randint(1, 255), 255, 1, 144)), (hi3 << 32) | (c << 24) | low, rng.random() < 0.5)
            else:
                d = gp.rfloat(rng, 8)
            check_double(res, api, d)
            res.case(d, nontrivial=(d != b'\0' * 8))
            if i < 2:
                res.sample({'kind': kind, 'operand': d.hex(), 'value': float(mbf.frac(d))})
        res.evaluations += 3 * spec['n']
    elif kind == 'csng_midpoints':
        # seed-independent part: fixed mantissas at the range ends; then random top parts
        blocks = []
        if spec['part'] == 0:
            for e in (1, 2, 128, 129, 254, 255):
                for hi3 in (0, 1, 0x7fffff, 0x7ffffe, 0x400000, 0x2aaaaa, 0x555555):
                    for neg in (False, True):
                        blocks.append((hi3, e, neg))
        for _ in range(spec['n']):
            blocks.append((rng.getrandbits(23), rng.choice((rng.randint(1, 255), 255, 1)), rng.random() < 0.5))
        n = 0
        seen = set()
        for hi3, e, neg in blocks:
            lows = (0, 1, 0xffffff, rng.getrandbits(24))
            for d in carry_block(hi3, e, neg, lows):
                check_csng(res, api, d)
                n += 1
                seen.add(d)
        res.bulk(n, len(seen))
        res.sample({'kind': kind, 'blocks': len(blocks), 'each': 'carry byte 0..255 x low tails {000000,000001,ffffff,random}',
                    'first_block': [blocks[0][0], blocks[0][1], blocks[0][2]]})
    elif kind == 'single_sweep':
        _single_sweep(spec, rng, res, api)
    else:
        raise ValueError(kind)


def _single_sweep(spec, rng, res, api):
    """thorough: at one exponent byte, every 16th mantissa (+ seed offset) and all integer-part x critical-fraction mantissas"""
    e = spec['exp']
    part, parts = spec['part'], spec['parts']
    off = random.Random('%s:C03:sweepoff:%s' % (spec['seed'], e)).randrange(16)
    mants = set(range(off, 1 << 23, 16)[part::parts])
    fb = 24 - (e - 128)       # number of fraction bits of the 24-bit mantissa
    if 1 <= fb <= 23:
        half = 1 << (fb - 1)
        fracs = sorted(set(x & ((1 << fb) - 1) for x in (0, 1, half - 1, half, half + 1, (1 << fb) - 1)))
        nint = 1 << (23 - fb) if fb <= 23 else 1
        for ip in range(part, max(nint, 1), parts):
            for fr in fracs:
                mants.add(((ip << fb) | fr) & 0x7fffff)
    n = 0
    for m in mants:
        for neg in (False, True):
            n += check_single(res, api, mbf.pack(4, e, m, neg))
    res.bulk(n, n)
    res.count('sweep_patterns', 2 * len(mants))
    res.sample({'kind': 'single_sweep', 'exponent_byte': e, 'mantissas': len(mants), 'offset': off, 'fraction_bits': fb})


# ---------------------------------------------------------------------------------------------
# all 65536 integers, API level

def _int16_api(w, res):
    api = Api(w)
    numapi, N, V = api.numapi, api.N, api.V
    n = 0
    for i in range(-32768, 32768):
        ib = mbf.int_bytes(i)
        try:
            x = numapi.integer(i)
            h = bytes(x.to_hex())
            o = bytes(x.to_oct())
            back_h = numapi.call(lambda t: N.Integer(None, numapi.VALUES).from_hex(t), h)
            back_o = numapi.call(lambda t: N.Integer(None, numapi.VALUES).from_oct(t), o)
            repr_h = numapi.call(lambda t: numapi.VALUES.from_repr(t, True), b'&H' + h)
            repr_o = numapi.call(lambda t: numapi.VALUES.from_repr(t, True), b'&O' + o)
            repr_o2 = numapi.call(lambda t: numapi.VALUES.from_repr(t, True), b'&' + o)
        except Exception as e:
            res.violation('internal:%s@numbers.hexoct' % type(e).__name__, 'host exception %r for %d' % (e, i), ['hexoct', i])
            continue
        for name, got, txt in (('hex', back_h, h), ('oct', back_o, o), ('hex-repr', repr_h, h), ('oct-repr', repr_o, o),
                               ('oct-repr-short', repr_o2, o)):
            if got != ('ok', ib):
                res.violation('api:%s:roundtrip' % name, '%d -> %r -> %r' % (i, txt, got), ['hexoct', i])
        res.count('hexoct_roundtrips', 5)
        n += 5
        # CINT / CDBL of the integral single and double, and of the Integer itself
        s4, d8 = mbf.from_int(i, 4), mbf.from_int(i, 8)
        check_cint(res, api, s4)
        check_cint(res, api, d8)
        check_cdbl(res, api, s4)
        check_csng(res, api, d8)
        got = api.un(V.cint_, ib)
        if got != ('ok', ib):
            res.violation('api:cint:integer:changed', 'CINT of integer %d gave %r' % (i, got), ['cint', ib])
        n += 5
    res.bulk(n, n)
    res.count('integers_enumerated', 65536)
    res.sample({'kind': 'int16_api', 'range': 'all -32768..32767',
                'checks': ['to_hex/from_hex', 'to_oct/from_oct', 'from_repr(&H..)', 'from_repr(&O..)', 'from_repr(&..)',
                           'CINT single', 'CINT double', 'CDBL single', 'CSNG double', 'CINT integer']})


def _int16_basic(w, spec, res):
    """all integers through a real session: HEX$/OCT$ re-read by VAL and as a literal, MKI$/CVI"""
    from .. import harness
    n = 0
    with harness.Box() as box:
        for i in range(-32768 + spec['part'], 32768, spec['parts']):
            ib = mbf.int_bytes(i)
            w.cur = ('basic-hexoct', i)
            try:
                box.set('A%', i)
                h = box.ev(b'HEX$(A%)')
                o = box.ev(b'OCT$(A%)')
                vh = box.ev(b'VAL("&H"+HEX$(A%))')
                vo = box.ev(b'VAL("&O"+OCT$(A%))')
                lh = box.ev(b'&H' + h) if isinstance(h, bytes) else None
                lo = box.ev(b'&O' + o) if isinstance(o, bytes) else None
                mk = box.ev(b'MKI$(A%)')
                box.set('S$', ib)
                cv = box.ev(b'CVI(S$)')
            except harness.Internal as e:
                res.violation(e.key, str(e), ['int16_basic', i])
                if type(e.exc).__name__ == 'Hang':
                    return
                continue
            for name, got in (('val-hex', vh), ('val-oct', vo), ('literal-hex', lh), ('literal-oct', lo)):
                if got != i or isinstance(got, float):
                    res.violation('basic:%s:roundtrip' % name, '%d: HEX$=%r OCT$=%r re-read as %r' % (i, h, o, got), ['int16_basic', i])
            res.count('hexoct_roundtrips', 4)
            if mk != ib:
                res.violation('basic:mki:bytes', 'MKI$(%d) = %r expected %r' % (i, mk, ib), ['mki', i])
            if cv != i:
                res.violation('basic:cvi:value', 'CVI(%r) = %r expected %d' % (ib, cv, i), ['cvi', i])
            n += 6
        # HEX$/OCT$ on literal arguments (negative through unary minus) for a subset
        for i in list(range(-300, 301, 7)) + [-32768, -32767, 32767]:
            if i % spec['parts'] != spec['part']:
                continue
            lit = (b'(-%d)' % -i) if i < 0 else b'%d' % i
            try:
                vh = box.ev(b'VAL("&H"+HEX$(' + lit + b'))')
                vo = box.ev(b'VAL("&O"+OCT$(' + lit + b'))')
            except harness.Internal as e:
                res.violation(e.key, str(e), ['int16_basic_lit', i])
                continue
            if vh != i or vo != i:
                res.violation('basic:val-hexoct-literal-arg:roundtrip', '%d re-read as %r / %r' % (i, vh, vo), ['int16_basic_lit', i])
            n += 2
    res.bulk(n, n)
    res.count('basic_cases', n)
    res.sample({'kind': 'int16_basic', 'integers': 'every %dth from %d' % (spec['parts'], -32768 + spec['part']),
                'expressions': ['VAL("&H"+HEX$(A%))', 'VAL("&O"+OCT$(A%))', '&H<HEX$ text>', '&O<OCT$ text>', 'MKI$(A%)', 'CVI(S$)']})


# ---------------------------------------------------------------------------------------------
# BASIC level sample

def _outcome(box, harness, expr, want_len):
    """
    evaluate a string-valued expression giving result bytes; on a BASIC error re-run it as a
    statement to learn the error class. -> ('ok', bytes) | ('err', code)
    """
    v = box.ev(expr)
    if isinstance(v, bytes) and len(v) == want_len:
        return ('ok', v)
    if v is None:
        out = box.ex(b'R$=' + expr)
        code, _ = harness.err_of(out)
        if code:
            return ('err', code)
        if out.startswith(b'Overflow'):
            return ('err', 6)       # soft-handled
        return ('err', -1)
    return ('ok', v if isinstance(v, bytes) else repr(v).encode())


def _basic_conv(w, spec, rng, res):
    from .. import harness
    from ..gen import c04_pairs as gp
    sdir = single_directed_table()
    ddir = double_directed_table()
    with harness.Box() as box:
        scal = box.impl.scalars
        for i in range(spec['n']):
            single = (i % 2 == 0)
            r = rng.random()
            if single:
                b = rng.choice(sdir) if r < 0.35 else (gp.rfloat(rng, 4, rng.randint(0x7e, 0x9a)) if r < 0.8 else gp.rbytes(rng, 4))
            else:
                if r < 0.3:
                    b = rng.choice(ddir)
                elif r < 0.55:
                    b = mbf.pack(8, rng.randint(1, 255), (rng.getrandbits(23) << 32) | (rng.choice((0x7f, 0x80, 0x81, rng.getrandbits(8))) << 24)
                                 | rng.choice((0, 1, 0xffffff, rng.getrandbits(24))), rng.random() < 0.5)
                elif r < 0.85:
                    b = gp.rfloat(rng, 8, rng.randint(0x7e, 0x9a))
                else:
                    b = gp.rbytes(rng, 8)
            n = len(b)
            cv, mk, sig = (b'CVS', b'MKS$', b'!') if single else (b'CVD', b'MKD$', b'#')
            res.case((b'conv', b))
            res.count('basic_cases')
            w.cur = ('basic-conv', b)
            try:
                box.set('S$', b)
                # CVx: the value planted in a variable has exactly these bytes; MKx$ gives them back
                out = box.ex(b'A' + sig + b'=' + cv + b'(S$)')
                stored = bytes(scal.view_buffer(b'A' + sig))
                if out or stored != b:
                    res.violation('basic:%s:encoding-changed' % cv.decode().lower(),
                                  '%s of %s stored %s (output %r)' % (cv.decode(), b.hex(), stored.hex(), out), ['cv', b])
                m1 = box.ev(mk + b'(A' + sig + b')')
                if m1 != stored:
                    res.violation('basic:%s:not-stored-form' % mk.decode().lower().rstrip('$'),
                                  '%s of variable holding %s gave %r' % (mk.decode(), stored.hex(), m1), ['mk', b])
                m2 = box.ev(mk + b'(' + cv + b'(S$))')
                if m2 != b:
                    res.violation('basic:%s:roundtrip' % mk.decode().lower().rstrip('$'),
                                  '%s(%s(%s)) gave %r' % (mk.decode(), cv.decode(), b.hex(), m2), ['mkcv', b])
                if i % 40 == 0:
                    # the same through PEEK(VARPTR()) only
                    out = box.ex(b'FOR I%%=0 TO %d:PRINT PEEK(VARPTR(A%s)+I%%);:NEXT' % (n - 1, sig))
                    try:
                        pk = bytes(int(t) for t in out.split())
                    except ValueError:
                        pk = None
                    res.count('peek_varptr_cases')
                    if pk != b:
                        res.violation('basic:%s:peek-varptr-differs' % cv.decode().lower(),
                                      'PEEK(VARPTR) of variable set by %s(%s): %r' % (cv.decode(), b.hex(), out), ['peek', b])
                arg = cv + b'(S$)'
                # CINT
                v = box.ev(b'CINT(' + arg + b')')
                if v is None:
                    out = box.ex(b'R%=CINT(' + arg + b')')
                    code, _ = harness.err_of(out)
                    got = ('err', code if code else -1)
                elif isinstance(v, int) and not isinstance(v, bool) and -32768 <= v <= 32767:
                    got = ('ok', mbf.int_bytes(v))
                else:
                    got = ('ok', b'')       # not an Integer
                check_cint(res, None, b, 'basic', got)
                # FIX / INT (value observed through MKx$ of the same precision - no conversion involved)
                gf = _outcome(box, harness, mk + b'(FIX(' + arg + b'))', n)
                gi = _outcome(box, harness, mk + b'(INT(' + arg + b'))', n)
                check_fix_int(res, None, b, 'basic', gf, gi)
                if single:
                    check_cdbl(res, None, b, 'basic', _outcome(box, harness, b'MKD$(CDBL(' + arg + b'))', 8))
                else:
                    check_csng(res, None, b, 'basic', _outcome(box, harness, b'MKS$(CSNG(' + arg + b'))', 4))
                res.evaluations += 6
            except harness.Internal as e:
                res.violation(e.key, str(e), ['basic_conv', b])
                if type(e.exc).__name__ == 'Hang':
                    return
                continue
            if i < 2:
                res.sample({'kind': 'basic_conv', 'operand': b.hex(), 'value': float(mbf.frac(b)),
                            'expressions': ['A!=CVS(S$)', 'MKS$(A!)', 'CINT(CVS(S$))', 'MKS$(FIX(CVS(S$)))', 'MKS$(INT(CVS(S$)))',
                                            'MKD$(CDBL(CVS(S$)))' if single else 'MKS$(CSNG(CVD(S$)))']})
