"""dev helper: run one shard in-process and print the result (python -m vf._shard C07 '{"kind":..}')"""
import sys, json, importlib, time
from .result import Result
def main():
    prop, spec = sys.argv[1], json.loads(sys.argv[2])
    spec.setdefault('seed', 0); spec.setdefault('tier', 'quick'); spec.setdefault('shard', 0)
    mod = importlib.import_module('vf.checks.%s' % prop.lower())
    res = Result()
    t = time.time()
    mod.run_shard(spec, res)
    print('time %.1fs evaluations %d distinct %d' % (time.time() - t, res.evaluations, len(res._distinct) + res.bulk_distinct))
    print('counters', json.dumps(res.counters, sort_keys=True))
    for k, v in sorted(res.violations.items()):
        print('VIOL', k, v['count'])
        for w in v['witnesses'][:2]:
            print('     ', w['what'][:300])
    for r in res.inconclusive_reasons: print('INCONCLUSIVE', r)
    if '-s' in sys.argv:
        for s in res.samples[:3]: print('sample', s)
main()
