"""Generate MANIFEST.json from the check modules' META (run: ./mk).  Properties without a check
module are listed under not_applicable with the reason in NOT_CLAIMED below (kept current by hand)."""
import glob
import importlib
import json
import os
import sys

HERE = os.path.dirname(os.path.dirname(os.path.abspath(__file__)))

# property id -> reason, for properties deliberately not claimed
NOT_CLAIMED = {
}

PENDING = 'check not built yet in this round (runtime monitor planned in DESIGN.md section 4; no claim made until it exists and is silent on the unchanged tree)'


def main():
    props = []
    with open(os.path.join(HERE, 'properties.jsonl')) as f:
        for l in f:
            if l.strip():
                props.append(json.loads(l)['id'])
    checks = []
    not_app = []
    # checks are claimed only once they have been run silent on the unchanged tree (list kept by hand)
    with open(os.path.join(HERE, 'vf', 'enabled.txt')) as f:
        enabled = set(f.read().split())
    for pid in props:
        path = os.path.join(HERE, 'vf', 'checks', '%s.py' % pid.lower())
        if pid in NOT_CLAIMED or not os.path.exists(path) or pid not in enabled:
            not_app.append({'property_id': pid, 'reason': NOT_CLAIMED.get(pid, PENDING)})
            continue
        mod = importlib.import_module('vf.checks.%s' % pid.lower())
        m = mod.META
        if m.get('disabled'):
            not_app.append({'property_id': pid, 'reason': m['disabled']})
            continue
        checks.append({
            'property_id': pid,
            'quick_cmd': './check %s quick' % pid,
            'thorough_cmd': './check %s thorough' % pid,
            'evidence_file': 'evidence/%s.json' % pid,
            'replay_cmd_template': './check %s quick --replay {path}' % pid,
            'engine': 'vf',
            'level_claimed': {
                'category': m.get('level', 'exploration'),
                'text': m['level_text'],
                'design_ref': m.get('design_ref', 'DESIGN.md section 4 %s' % pid),
            },
            'level_note': m['level_note'],
            'technique': m['technique'],
        })
    manifest = {
        'version': 1,
        'setup_cmd': './setup.sh',
        'hooks': {
            'guard': 'PCBASIC_VERIF',
            'enable': ('no source hooks in /repo: all instrumentation is applied from /verif/vf at run time (class-level '
                       'wrappers, sys.addaudithook, queue substitution, Session.set_hook); ./check sets PCBASIC_VERIF=1 '
                       'for the harness only and imports /repo\'s current working tree via PYTHONPATH'),
            'baseline_off_cmd': 'cd /repo && /venv/bin/python -m pytest -ra -q -p no:cacheprovider --timeout=900 --continue-on-collection-errors',
            'source_commits': [],
            'add_only': True,
        },
        'engines': [{
            'name': 'vf',
            'path': 'vf/',
            'serves_properties': [c['property_id'] for c in checks],
            'kind_free_text': ('runtime monitoring: the real interpreter is driven by seeded hostile workloads in fresh '
                               'subprocesses; oracles are reference models, differential twins, frame-condition snapshots, '
                               'audit-hook file-system monitor, recording video/audio queues and invariant hooks'),
        }],
        'checks': checks,
        'not_applicable': not_app,
        'notes': ('Verdicts: exit 0 held on what was observed; exit 1 VIOLATION (unlisted mechanism); exit 2 INCONCLUSIVE. '
                  'Known findings: known_findings.json (matched by mechanism key). VERIF_SEED seeds all randomness.'),
    }
    with open(os.path.join(HERE, 'MANIFEST.json'), 'w') as f:
        json.dump(manifest, f, indent=1)
    print('MANIFEST.json: %d checks, %d not claimed' % (len(checks), len(not_app)))


if __name__ == '__main__':
    sys.path.insert(0, HERE)
    main()
