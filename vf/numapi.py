"""
API-level access to the real pcbasic.basic.values primitives (volume path for the numeric
checks). A standalone Values object with a *raising* float error handler: every soft error
is raised as BASICError, so the oracle sees the error class.
"""
from . import harness  # noqa: F401  (sets sys.path to /repo)
from pcbasic.basic.values import values as V
from pcbasic.basic.values import numbers as N
from pcbasic.basic.values import strings as S
from pcbasic.basic.base import error

VALUES = V.Values(None, False)
VALUES.set_handler(V.FloatErrorHandler(None))

CLS = {2: N.Integer, 4: N.Single, 8: N.Double}


def num(b):
    """Real pcbasic number object holding exactly the bytes b."""
    return CLS[len(b)](None, VALUES).from_bytes(bytes(b))


def integer(i):
    return N.Integer(None, VALUES).from_int(i)


def call(fn, *args):
    """
    Call a values-level function. Returns ('ok', bytes, size) or ('err', code).
    Anything else (a host exception) propagates: the caller records it as internal.
    """
    try:
        r = fn(*args)
    except error.BASICError as e:
        return ('err', e.err)
    return ('ok', bytes(r.to_bytes()))
