"""
Result accumulator used by every shard worker.

A shard's run_shard(spec) gets a fresh Result and reports into it:

    res.case(key)                  one evaluated case; key = hashable/JSON-able
                                   normal form used to count DISTINCT non-trivial cases
    res.case(key, nontrivial=False)  evaluated, but trivial by the check's rule
    res.bulk(n, distinct)          n evaluations of a duplicate-free enumerated block
                                   (distinct measured by the enumerating loop itself)
    res.sample(obj)                keep an example case (first few are stored)
    res.count(name, n=1)           behavioural / reach counter
    res.violation(key, what, case) oracle refuted; key = MECHANISM (never a hash / random value)
    res.known_repro(key)           directed reproducer of a known finding fired
    res.inconclusive(reason)
"""
import hashlib
import json
from array import array

MAX_SAMPLES = 6
MAX_WITNESS_PER_KEY = 3


def _h64(obj):
    if isinstance(obj, bytes):
        data = obj
    elif isinstance(obj, str):
        data = obj.encode('utf-8', 'surrogateescape')
    else:
        data = repr(obj).encode('utf-8', 'surrogateescape')
    return int.from_bytes(hashlib.blake2b(data, digest_size=8).digest(), 'little')


def jsonable(obj):
    """Make obj JSON-serialisable (bytes -> latin-1 text with marker)."""
    if isinstance(obj, (bytes, bytearray)):
        return {'bytes': bytes(obj).hex()} if any(b < 32 or b > 126 for b in obj) else {'b': bytes(obj).decode('ascii')}
    if isinstance(obj, dict):
        return {str(k): jsonable(v) for k, v in obj.items()}
    if isinstance(obj, (list, tuple, set, frozenset)):
        return [jsonable(v) for v in obj]
    if isinstance(obj, (int, float, str, bool)) or obj is None:
        return obj
    return repr(obj)


def unjson(obj):
    """Inverse of jsonable for the bytes markers."""
    if isinstance(obj, dict):
        if set(obj) == {'bytes'}:
            return bytes.fromhex(obj['bytes'])
        if set(obj) == {'b'}:
            return obj['b'].encode('ascii')
        return {k: unjson(v) for k, v in obj.items()}
    if isinstance(obj, list):
        return [unjson(v) for v in obj]
    return obj


class Result(object):

    def __init__(self):
        self.evaluations = 0
        self.trivial = 0
        self._distinct = set()
        self.bulk_distinct = 0
        self.samples = []
        self.counters = {}
        self.violations = {}      # key -> {'what', 'count', 'witnesses': [...]}
        self.known = {}           # key -> count
        self.inconclusive_reasons = []

    # -- cases ---------------------------------------------------------------
    def case(self, key, nontrivial=True):
        self.evaluations += 1
        if nontrivial:
            self._distinct.add(_h64(key))
        else:
            self.trivial += 1

    def bulk(self, n, distinct):
        self.evaluations += n
        self.bulk_distinct += distinct

    def sample(self, obj):
        if len(self.samples) < MAX_SAMPLES:
            self.samples.append(jsonable(obj))

    def count(self, name, n=1):
        self.counters[name] = self.counters.get(name, 0) + n

    def maxc(self, name, v):
        if v > self.counters.get(name, 0):
            self.counters[name] = v

    # -- verdicts --------------------------------------------------------------
    def violation(self, key, what, case=None):
        entry = self.violations.setdefault(key, {'what': what, 'count': 0, 'witnesses': []})
        entry['count'] += 1
        if len(entry['witnesses']) < MAX_WITNESS_PER_KEY:
            entry['witnesses'].append({'what': what, 'case': jsonable(case)})

    def inconclusive(self, reason):
        if reason not in self.inconclusive_reasons:
            self.inconclusive_reasons.append(reason)

    # -- serialisation ----------------------------------------------------------
    def dump(self, json_path, hash_path):
        arr = array('Q', sorted(self._distinct))
        with open(hash_path, 'wb') as f:
            arr.tofile(f)
        with open(json_path, 'w') as f:
            json.dump({
                'evaluations': self.evaluations,
                'trivial': self.trivial,
                'bulk_distinct': self.bulk_distinct,
                'n_hashes': len(arr),
                'samples': self.samples,
                'counters': self.counters,
                'violations': self.violations,
                'inconclusive': self.inconclusive_reasons,
            }, f)
