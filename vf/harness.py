"""
Harness shared by all checks: sandboxed sessions of the REAL interpreter in
/repo's current working tree, statement-boundary controller (M-STEP),
virtual clock, exception-boundary monitor (M-EXC), recording queues
(M-VID / M-AUD).  Monitors observe; they never steer the implementation,
except for the three documented external stimuli: delivering input events at a
statement boundary, ending a run by Break (step budget) and closing the
session by Exit (interruption) - all of which the real program can receive.
"""
import contextlib
import datetime as _real_datetime
import io
import os
import shutil
import sys
import tempfile
import traceback

REPO = os.environ.get('VERIF_REPO', '/repo')
if REPO not in sys.path:
    sys.path.insert(0, REPO)

from pcbasic.basic import api as _api                      # noqa: E402
from pcbasic.basic.base import error, signals, scancode   # noqa: E402
from pcbasic.basic import eventcycle as _eventcycle        # noqa: E402
from pcbasic.basic import clock as _clock                  # noqa: E402
from pcbasic.basic import sound as _sound                  # noqa: E402

Session = _api.Session


# ---------------------------------------------------------------------------------------
# M-STEP: statement-boundary controller

class Stepper(object):
    """
    Attached to a session's EventQueues instance. Counts statement boundaries
    (check_events calls not nested in wait()) and waits; delivers scheduled input
    signals before a chosen boundary; ends the run with Break when the logical step
    budget is used up (what a user pressing Ctrl+Break does); raises Exit at a chosen
    boundary (what closing the window does).
    """

    def __init__(self, budget=200000, wait_budget=400, clock=None, wait_advance=0.02):
        self.budget = budget
        self.wait_budget = wait_budget
        self.boundaries = 0
        self.waits = 0
        self.total_waits = 0
        self.schedule = {}        # boundary index -> [signals]
        self.exit_at = None       # boundary index at which to raise Exit
        self.break_hit = False
        self.exit_hit = False
        self.clock = clock
        self.wait_advance = wait_advance
        self.on_boundary_cb = None
        # called on every wait(); returns True if it supplied input (e.g. typed the next keys)
        self.on_wait_cb = None
        self.in_wait = False
        # when waiting for input longer than the wait budget: Exit instead of Break
        self.exit_on_wait = False

    def reset(self, budget=None):
        self.boundaries = 0
        self.waits = 0
        self.break_hit = False
        self.exit_hit = False
        if budget is not None:
            self.budget = budget

    def boundary(self, queues):
        self.boundaries += 1
        self.waits = 0
        n = self.boundaries
        if self.on_boundary_cb is not None:
            self.on_boundary_cb(n, queues)
        sigs = self.schedule.pop(n, None)
        if sigs:
            for sig in sigs:
                queues.inputs.put(sig)
        if self.exit_at is not None and n >= self.exit_at:
            self.exit_at = None
            self.exit_hit = True
            raise error.Exit()
        if n > self.budget:
            self.break_hit = True
            self.boundaries = 0
            raise error.Break()

    def wait(self, queues):
        self.waits += 1
        self.total_waits += 1
        if self.on_wait_cb is not None and self.on_wait_cb(queues):
            # input was supplied: not idle
            self.waits = 0
        if self.clock is not None:
            self.clock.advance(self.wait_advance)
        if self.waits > self.wait_budget:
            self.waits = 0
            if self.exit_on_wait:
                # nothing more is coming: the user closes the session
                self.exit_hit = True
                raise error.Exit()
            self.break_hit = True
            raise error.Break()

    # picklable as a no-op (C40 suspends sessions with a controller attached)
    def __reduce__(self):
        return (_none, ())


def _none():
    return None


_orig_check_events = _eventcycle.EventQueues.check_events
_orig_wait = _eventcycle.EventQueues.wait


def _vf_check_events(self):
    ctl = self.__dict__.get('_vf_ctl')
    if ctl is not None and not ctl.in_wait:
        ctl.boundary(self)
    return _orig_check_events(self)


def _vf_wait(self):
    ctl = self.__dict__.get('_vf_ctl')
    if ctl is None:
        return _orig_wait(self)
    ctl.wait(self)
    ctl.in_wait = True
    try:
        return _orig_wait(self)
    finally:
        ctl.in_wait = False


_eventcycle.EventQueues.check_events = _vf_check_events
_eventcycle.EventQueues.wait = _vf_wait
# logical time only: no real sleeping in wait()
_eventcycle.EventQueues.tick = 0


def attach_stepper(session, stepper):
    session.start()
    session._impl.queues.__dict__['_vf_ctl'] = stepper
    return stepper


def detach_stepper(session):
    session._impl.queues.__dict__.pop('_vf_ctl', None)


# ---------------------------------------------------------------------------------------
# virtual clock

class _VDateTimeMeta(type):
    def __instancecheck__(cls, inst):
        return isinstance(inst, _real_datetime.datetime)


class VirtualClock(object):
    """Replaces the name `datetime` inside pcbasic.basic.clock and .sound."""

    def __init__(self, start=None):
        self.t = start or _real_datetime.datetime(2020, 6, 15, 12, 0, 0)
        outer = self

        class vdatetime(_real_datetime.datetime):
            @classmethod
            def now(cls, tz=None):
                return outer.t

            @classmethod
            def today(cls):
                return outer.t

        class vmodule(object):
            datetime = vdatetime
            timedelta = _real_datetime.timedelta
            date = _real_datetime.date
            time = _real_datetime.time

        self.module = vmodule

    def advance(self, seconds):
        self.t = self.t + _real_datetime.timedelta(seconds=seconds)

    def install(self):
        _clock.datetime = self.module
        _sound.datetime = self.module
        return self

    @staticmethod
    def uninstall():
        _clock.datetime = _real_datetime
        _sound.datetime = _real_datetime


_SHARED_CLOCK = None


def shared_clock():
    global _SHARED_CLOCK
    if _SHARED_CLOCK is None:
        _SHARED_CLOCK = VirtualClock().install()
    return _SHARED_CLOCK


# ---------------------------------------------------------------------------------------
# recording queues (M-VID / M-AUD)

class RecQueue(object):
    """Queue stand-in: logs every signal; always reports empty so the engine never waits on it."""

    def __init__(self):
        self.log = []

    def qsize(self):
        return 0

    def empty(self):
        return True

    def full(self):
        return False

    def put(self, item, block=False, timeout=False):
        self.log.append(item)

    def put_nowait(self, item):
        self.log.append(item)

    def get(self, block=False, timeout=False):
        from pcbasic.compat import queue
        raise queue.Empty

    def task_done(self):
        pass

    def join(self):
        pass

    def drain(self):
        out = self.log
        self.log = []
        return out


def record_queues(session, video=True, audio=True):
    """Install recording queues through the public EventQueues attributes; returns (video, audio)."""
    session.start()
    q = session._impl.queues
    v = a = None
    if video:
        v = RecQueue()
        q.video = v
    if audio:
        a = RecQueue()
        q.audio = a
    return v, a


# ---------------------------------------------------------------------------------------
# M-EXC: exception boundary

class Internal(Exception):
    """An internal (host-language) exception escaped the public API."""

    def __init__(self, exc, key, tb):
        Exception.__init__(self, '%s: %s' % (key, exc))
        self.exc = exc
        self.key = key
        self.tb = tb


class CaseTimeout(BaseException):
    """Per-case wall-clock guard fired (inconclusive for that case, never a violation)."""


@contextlib.contextmanager
def time_limit(seconds):
    """Raise CaseTimeout in the main thread if the block runs longer than `seconds` (SIGALRM)."""
    import signal

    def _handler(signum, frame):
        raise CaseTimeout()
    old = signal.signal(signal.SIGALRM, _handler)
    signal.setitimer(signal.ITIMER_REAL, seconds)
    try:
        yield
    finally:
        signal.setitimer(signal.ITIMER_REAL, 0)
        signal.signal(signal.SIGALRM, old)


def internal_key(exc, tb=None):
    """(exception class, innermost frame inside pcbasic/) - the C01 mechanism key."""
    tb = tb if tb is not None else exc.__traceback__
    where = '?'
    for fs in traceback.extract_tb(tb):
        fn = fs.filename.replace('\\', '/')
        if '/pcbasic/' in fn:
            where = '%s:%s' % (fn.split('/pcbasic/', 1)[1], fs.name)
    return 'internal:%s@%s' % (type(exc).__name__, where)


def guarded(fn, *args, **kwargs):
    """
    Call a public-API function. Returns ('ok', value) | ('exit', None) | ('reset', None).
    Raises Internal for anything else escaping (BASICError / Break must never escape
    execute/interact; they do legitimately escape nothing).
    """
    try:
        return ('ok', fn(*args, **kwargs))
    except error.Exit:
        return ('exit', None)
    except error.Reset:
        return ('reset', None)
    except (Internal, CaseTimeout):
        raise
    except BaseException as e:  # noqa
        if isinstance(e, (KeyboardInterrupt, SystemExit, MemoryError)) and not _in_pcbasic(e):
            raise
        raise Internal(e, internal_key(e), ''.join(traceback.format_exception(type(e), e, e.__traceback__)[-12:]))


def _in_pcbasic(e):
    for fs in traceback.extract_tb(e.__traceback__):
        if '/pcbasic/' in fs.filename.replace('\\', '/'):
            return True
    return False


# ---------------------------------------------------------------------------------------
# sandboxed sessions

class Box(object):
    """A sandboxed session with its own temp mount; use as context manager."""

    def __init__(self, budget=200000, wait_budget=400, virtual_clock=True, mounts=None,
                 stepper=True, root=None, **kwargs):
        self.root = root or tempfile.mkdtemp(prefix='vfbox_')
        self._own_root = root is None
        self.mount = os.path.join(self.root, 'c')
        os.makedirs(self.mount, exist_ok=True)
        kw = dict(
            input_streams=None, output_streams=None,
            devices={'C': self.mount, 'Z': None}, current_device='C:',
            peek_values={},
        )
        if mounts:
            kw['devices'] = mounts
        kw.update(kwargs)
        self.kwargs = kw
        # one process-wide virtual clock (the modules' `datetime` name is global state):
        # several live Boxes share it, and closing one does not take it away from the others
        self.clock = shared_clock() if virtual_clock else None
        self.s = Session(**kw)
        self.s.start()
        self.impl = self.s._impl
        self.stepper = None
        if stepper:
            self.stepper = attach_stepper(self.s, Stepper(budget, wait_budget, self.clock))

    # -- context ----------------------------------------------------------------------
    def __enter__(self):
        return self

    def __exit__(self, *a):
        self.close()
        return False

    def close(self):
        try:
            self.s.close()
        except BaseException:
            pass
        if self._own_root:
            shutil.rmtree(self.root, ignore_errors=True)

    # -- running -----------------------------------------------------------------------
    def ex(self, cmd, budget=None):
        """execute() one direct-mode line (bytes); returns output bytes. Internal => raises Internal."""
        if self.stepper is not None:
            self.stepper.reset(budget)
        if isinstance(cmd, str):
            cmd = cmd.encode('latin-1')
        st, val = guarded(self.s.execute, cmd)
        if st != 'ok':
            return b'<%s>' % st.encode()
        return val

    def ev(self, expr):
        if isinstance(expr, str):
            expr = expr.encode('latin-1')
        st, val = guarded(self.s.evaluate, expr)
        return val

    def enter(self, lines):
        """Enter program lines (iterable of bytes / one bytes blob)."""
        if isinstance(lines, (bytes, str)):
            lines = lines.splitlines()
        out = b''
        for l in lines:
            if l.strip():
                out += self.ex(l)
        return out

    def run(self, lines=None, budget=None, cmd=b'RUN'):
        if lines is not None:
            self.ex(b'NEW')
            self.enter(lines)
        return self.ex(cmd, budget)

    def get(self, name):
        # BASICError is the documented failure mode of the variable API (it is a BASIC error)
        try:
            st, val = guarded(self.s.get_variable, name)
        except Internal as e:
            if isinstance(e.exc, error.BASICError):
                raise e.exc
            raise
        return val

    def set(self, name, value):
        try:
            guarded(self.s.set_variable, name, value)
        except Internal as e:
            if isinstance(e.exc, error.BASICError):
                raise e.exc
            raise

    def keys(self, text):
        """Type keys through the real input queue path (KEYB_DOWN signals)."""
        q = self.impl.queues.inputs
        for ch in text:
            q.put(signals.Event(signals.KEYB_DOWN, (ch, None, [])))

    def path(self, name):
        return os.path.join(self.mount, name)


def key_event(char=u'', scan=None, mods=()):
    return signals.Event(signals.KEYB_DOWN, (char, scan, list(mods)))


# error number of a message line, from the repo's own table (read-only use)
def error_messages():
    return dict(error.BASICError.messages) if hasattr(error.BASICError, 'messages') else {}


def parse_error(output):
    """Return the error message text (bytes, without \\xff / line suffix) ending an output, or None."""
    if not output:
        return None
    lines = output.replace(b'\xff', b'').split(b'\r\n')
    for l in reversed(lines):
        if l:
            return l
    return None


# independent copy of the documented GW-BASIC error table (message -> code)
ERRMSG = {
    b'NEXT without FOR': 1, b'Syntax error': 2, b'RETURN without GOSUB': 3, b'Out of DATA': 4,
    b'Illegal function call': 5, b'Overflow': 6, b'Out of memory': 7, b'Undefined line number': 8,
    b'Subscript out of range': 9, b'Duplicate Definition': 10, b'Division by zero': 11,
    b'Illegal direct': 12, b'Type mismatch': 13, b'Out of string space': 14, b'String too long': 15,
    b'String formula too complex': 16, b"Can't continue": 17, b'Undefined user function': 18,
    b'No RESUME': 19, b'RESUME without error': 20, b'Missing operand': 22,
    b'Line buffer overflow': 23, b'Device Timeout': 24, b'Device Fault': 25, b'FOR without NEXT': 26,
    b'Out of paper': 27, b'WHILE without WEND': 29, b'WEND without WHILE': 30, b'FIELD overflow': 50,
    b'Internal error': 51, b'Bad file number': 52, b'File not found': 53, b'Bad file mode': 54,
    b'File already open': 55, b'Device I/O error': 57, b'File already exists': 58, b'Disk full': 61,
    b'Input past end': 62, b'Bad record number': 63, b'Bad file name': 64,
    b'Direct statement in file': 66, b'Too many files': 67, b'Device Unavailable': 68,
    b'Communication buffer overflow': 69, b'Permission Denied': 70, b'Disk not Ready': 71,
    b'Disk media error': 72, b'Advanced Feature': 73, b'Rename across disks': 74,
    b'Path/File access error': 75, b'Path not found': 76, b'Deadlock': 77,
    b'Unprintable error': -1,
}


def err_of(output):
    """
    Error code announced by an output (last line that is an error message, optionally
    followed by ' in <line>'); returns (code, line or None) or (0, None) if no error line.
    Only HARD errors end with \\xff in direct output; soft float messages have none.
    """
    if not output:
        return (0, None)
    for l in reversed(output.split(b'\r\n')):
        if not l.endswith(b'\xff'):
            continue
        l = l[:-1]
        if l in ERRMSG:
            return (ERRMSG[l], None)
        if b' in ' in l:
            msg, _, num = l.rpartition(b' in ')
            if msg in ERRMSG and num.isdigit():
                return (ERRMSG[msg], int(num))
        if l.startswith(b'Break'):
            return (-2, None)
    return (0, None)
