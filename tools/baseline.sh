#!/bin/sh
# run the pinned repo test suite (hooks guard off) and compare with BASELINE.json stable_pass
out=$(mktemp /tmp/vf_junit_XXXX.xml)
cd /repo && /venv/bin/python -m pytest -ra -q -p no:cacheprovider --timeout=900 --continue-on-collection-errors --junitxml=$out >/dev/null 2>&1
python3 - "$out" <<'PY'
import sys, json, xml.etree.ElementTree as ET
base = set(json.load(open('/root/.vp/BASELINE.json'))['stable_pass'])
passed = set()
for tc in ET.parse(sys.argv[1]).getroot().iter('testcase'):
    if not any(ch.tag in ('failure', 'error', 'skipped') for ch in tc):
        passed.add('%s::%s' % (tc.get('classname'), tc.get('name')))
missing = sorted(base - passed)
print('baseline: %d/%d stable tests pass' % (len(base & passed), len(base)))
for m in missing:
    print('  NOT PASSING:', m)
sys.exit(1 if missing else 0)
PY
rc=$?
rm -f "$out"
exit $rc
