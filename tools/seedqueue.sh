#!/bin/sh
# tools/seedqueue.sh <results-file> <outdir>... : evaluate several agents' output directories one after the other
here="$(cd "$(dirname "$0")/.." && pwd)"; cd "$here"
r="$1"; shift
for d in "$@"; do SEED_RESULTS="$r" tools/seedgroup.sh "$d"; done
