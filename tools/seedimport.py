#!/usr/bin/env python3
"""Import confirmed seeded changes (written by independent sub-agents under /tmp/mut_*_out/<ID>/) into
/verif/seeded/<ID>/ with meta.json completed from the seedtest result lines in scratch/seed_results.txt."""
import glob
import json
import os
import re
import shutil
import sys

HERE = os.path.dirname(os.path.dirname(os.path.abspath(__file__)))


def main():
    # usage: seedimport.py [results-file [glob-of-output-dirs [suffix]]]
    resfile = sys.argv[1] if len(sys.argv) > 1 else 'seed_results.txt'
    pattern = sys.argv[2] if len(sys.argv) > 2 else '/tmp/mut_*_out/C*/'
    suffix = sys.argv[3] if len(sys.argv) > 3 else ''
    results = {}
    with open(os.path.join(HERE, 'scratch', resfile)) as f:
        for line in f:
            m = re.match(r'seed=(\S+) property=(\S+) demo_clean_rc=(\d+) applies=(\S+)(?: demo_patched_rc=(\d+))?(?: pinned_tests=(\S+))?(.*)', line.strip())
            if not m:
                continue
            seed, prop, dc, ap, dp, tests, rest = m.groups()
            checks = []
            for cm in re.finditer(r'\| (C\d+) rc=(\d+) keys=(\S*)', rest):
                checks.append({'check': cm.group(1), 'rc': int(cm.group(2)), 'keys': [k for k in cm.group(3).split(',') if k]})
            prev = results.get(seed, {})
            missed_before = prev.get('missed_before') or (bool(prev) and not any(c['rc'] == 1 for c in prev.get('checks', [])))
            results[seed] = {'property': prop, 'demo_clean_rc': int(dc), 'applies': ap, 'demo_patched_rc': int(dp) if dp else None,
                             'pinned_tests': tests or prev.get('pinned_tests'), 'checks': checks,
                             'missed_before': missed_before}
    n = 0
    for d in sorted(glob.glob(pattern)):
        seed = os.path.basename(os.path.dirname(d))
        if seed not in results or not os.path.exists(os.path.join(d, 'patch.diff')):
            continue
        r = results[seed]
        if not (r['applies'] == 'yes' and r['demo_clean_rc'] == 0 and r['demo_patched_rc'] == 1):
            print('not confirmed:', seed, r)
            continue
        dst = os.path.join(HERE, 'seeded', seed + suffix)
        os.makedirs(dst, exist_ok=True)
        for name in ('patch.diff', 'demo.py'):
            shutil.copy(os.path.join(d, name), os.path.join(dst, name))
        with open(os.path.join(d, 'meta.json')) as f:
            meta = json.load(f)
        caught = [c for c in r['checks'] if c['rc'] == 1]
        meta.update({
            'property': r['property'],
            'origin': 'written by a fresh sub-agent that saw only the property text and its own worktree',
            'what_was_run': [
                'tools/seedtest.sh: git worktree of /repo HEAD under /tmp, demo.py on the clean tree (exit %d), git apply patch.diff, '
                'demo.py on the patched tree (exit %d), pinned pytest suite on the patched tree (%s of the baseline tests pass; '
                'tests/unit/test_dos.py::test_interactive_shell is flaky under load), then ./check <ID> quick with VERIF_REPO=<worktree>; '
                'worktree removed' % (r['demo_clean_rc'], r['demo_patched_rc'], r['pinned_tests'])],
            'caught_by': ' '.join(c['check'] for c in caught) or 'NOT CAUGHT',
            'keys': sorted(set(k for c in caught for k in c['keys']))[:12],
        })
        if r.get('missed_before') and caught:
            meta['history'] = 'missed by the first version of the check; the check was strengthened (see DESIGN.md section 9) and now catches it'
        with open(os.path.join(dst, 'meta.json'), 'w') as f:
            json.dump(meta, f, indent=1)
        n += 1
    print('imported', n, 'seeded changes')


if __name__ == '__main__':
    main()
