#!/usr/bin/env python3
"""Re-run the current checks against every seeded change under /verif/seeded (or the ones named) and
update caught_by / keys in each meta.json.  usage: tools/seedrecheck.py [seed-dir-names...]
Each run uses tools/seedtest.sh (scratch worktree of /repo HEAD + patch; evidence is not touched)."""
import json
import os
import re
import subprocess
import sys

HERE = os.path.dirname(os.path.dirname(os.path.abspath(__file__)))


def main():
    names = sys.argv[1:] or sorted(os.listdir(os.path.join(HERE, 'seeded')))
    env = dict(os.environ, SEED_SKIP_TESTS='1')
    for name in names:
        d = os.path.join(HERE, 'seeded', name)
        mp = os.path.join(d, 'meta.json')
        if not os.path.exists(mp):
            continue
        with open(mp) as f:
            meta = json.load(f)
        # the property's own check, plus any other check recorded as catching it
        ids = [meta['property']] + [c for c in meta.get('caught_by', '').split() if re.match(r'C\d+$', c) and c != meta['property']]
        out = subprocess.run([os.path.join(HERE, 'tools', 'seedtest.sh'), d] + ids, env=env, stdout=subprocess.PIPE,
                             stderr=subprocess.STDOUT).stdout.decode('utf-8', 'replace').strip().splitlines()[-1]
        caught, keys = [], []
        for cm in re.finditer(r'\| (C\d+) rc=(\d+) keys=(\S*)', out):
            if cm.group(2) == '1':
                caught.append(cm.group(1))
                keys += [k for k in cm.group(3).split(',') if k]
        ok = 'demo_clean_rc=0' in out and 'demo_patched_rc=1' in out and 'applies=yes' in out
        was = meta.get('caught_by')
        if not caught and 'note' in meta and str(was).startswith('NOT A VIOLATION'):
            # a seed recorded as not breaking the property (see its note) stays recorded that way
            meta['caught_by'] = was
        else:
            meta['caught_by'] = ' '.join(caught) or 'NOT CAUGHT'
        meta['keys'] = sorted(set(keys))[:12]
        meta['rechecked_against_repo_head'] = subprocess.check_output(['git', '-C', '/repo', 'rev-parse', '--short', 'HEAD']).decode().strip()
        if not ok:
            meta['recheck_problem'] = out[:300]
        else:
            meta.pop('recheck_problem', None)
        if was == 'NOT CAUGHT' and caught and 'history' not in meta:
            meta['history'] = 'missed by the first version of the check; the check was strengthened (see DESIGN.md section 9) and now catches it'
        with open(mp, 'w') as f:
            json.dump(meta, f, indent=1)
        print('%s: %s %s' % (name, meta['caught_by'], '' if ok else 'PROBLEM ' + out[:200]), flush=True)


if __name__ == '__main__':
    main()
