"""Fix commits in /repo -> (properties, key reported by the check that exposes it). Used to (re)generate
the 'fixed' entries of known_findings.json and the table in DESIGN.md section 5 (tools/mkfindings.py)."""

# commit subject fragment -> (property ids, violation key(s) the checks emit for it on the pre-fix tree)
FIXES = [
    ('Integer.iadd missed overflow', ['C02'], 'for:overflow-at-limit'),
    ('double-precision multiplication underflowed', ['C04', 'C05'], 'mul:double:underflow-to-zero-above-min'),
    ('PEEK(1126) in graphics modes', ['C01'], 'internal:TypeError@basic/machine.py:_get_memory'),
    ('Session created without peek_values', ['C01'], 'internal:TypeError@basic/machine.py:_get_memory'),
    ('RENUM raised KeyError', ['C01', 'C14'], 'internal:KeyError@basic/interpreter.py:renum_'),
    ('LOCK accepted a range that strictly contains', ['C26'], 'lock:new-range-contains-held-range-accepted:other-number'),
    ('PUT beyond the end of a random file', ['C25'], 'put:gap-record-misplaced'),
    ('PEEK into any array but the first', ['C11'], 'peek:array-element-bytes'),
    ('multi-letter or empty drive name', ['C01', 'C27'], 'internal:KeyError@basic/devices/files.py:_get_diskdevice_and_path'),
    ('TIME$ with a negative component', ['C01', 'C44'], 'internal:ValueError@basic/clock.py:time_'),
    ('ENVIRON with a NUL byte', ['C01', 'C44'], 'internal:ValueError@basic/dos.py:_setenv'),
    ('load_session never compared', ['C40'], 'tamper:altered-header-bytes-4-7-accepted'),
    ('DEF FN with string parameters corrupted', ['C01', 'C10', 'C20'], 'internal:KeyError@basic/values/strings.py:_retrieve'),
    ('LEFT$, RIGHT$, MID$ and INSTR leaked', ['C10', 'C01'], 'internal:KeyError@basic/values/strings.py:_retrieve'),
    ('scrolling left the vacated row', ['C35'], 'display:scroll-background-attr'),
    ('block access to interlaced video memory', ['C34'], 'block-vs-byte:bank-crossing:read'),
    ('SCREEN 6 video memory blocks starting at an odd address', ['C34'], 'block-vs-byte:bank-crossing:read'),
    ('zero mantissa with a positive decimal exponent', ['C07'], 'read:zero-mantissa-with-positive-exponent:nonzero-result'),
    ('round up to the next power of ten', ['C07', 'C08'], 'print:double:shown-is-one-tenth-of-stored'),
    ('switching pages while a graphics VIEW', ['C01', 'C30'], 'internal:AssertionError@basic/display/graphics.py:set_page'),
    ('DRAW "C<n>" stored the colour unclamped', ['C01', 'C30'], 'internal:ValueError@basic/base/bytematrix.py:__setitem__'),
    ('body is just a parameter', ['C20', 'C10'], 'param-identity-body-returns-caller-value'),
    ('lost the lowest mantissa bit of floats below', ['C43'], 'float:single:error>1ulp'),
    ('POKE 1050, PEEK(1052) did not empty', ['C37'], 'kbd:clear-poke-leaves-keys'),
    ('cassette text file whose data ends exactly', ['C29'], 'tape:text-file-data-plus-terminator-fills-last-record:reader-runs-into-next-record'),
    ('arguments that are the caller\'s variables were overwritten', ['C20'], 'argument-variable-overwritten-by-earlier-parameter'),
    ('left its operand stack registered', ['C01', 'C10', 'C20'], 'internal:KeyError@basic/values/strings.py:_retrieve'),
    ('collection that found no permanent strings', ['C01', 'C10', 'C20'], 'internal:TypeError@basic/values/strings.py:is_permanent'),
    ('IMP <string> raised AttributeError', ['C01', 'C18'], 'internal:AttributeError@basic/values/values.py:imp_'),
    ('binary operator at the end of an expression', ['C18'], 'missing-operand:other-error-raised-instead'),
    ('below one unit of the last decimal as zero', ['C08'], 'using:fixed:digits:err<=1unit'),
    ('stored a string once for every pointer', ['C10'], 'minv:string-space-overruns-variable-area'),
    ('MID$ assignment to a string still held in program text', ['C01', 'C10'], 'internal:KeyError@basic/values/strings.py:_retrieve'),
    ('last number token is truncated', ['C01'], 'internal:KeyError@basic/values/values.py:from_bytes'),
    ('BLOAD from a character device', ['C01'], 'internal:AttributeError@basic/machine.py:bload_'),
    ('OPEN "CON" FOR APPEND or RANDOM', ['C01'], 'internal:UnboundLocalError@basic/devices/files.py:_get_device_param'),
    ('PUT or GET on a file opened on the NUL device', ['C01'], 'internal:AttributeError@basic/devices/files.py:put_'),
    ('X or = reference whose type byte is invalid', ['C01'], 'internal:KeyError@basic/memory/memory.py:get_value_for_varptrstr'),
    ('unused memory behind a FIELD buffer', ['C01', 'C16'], 'internal:IndexError@basic/memory/memory.py:_get_field_memory'),
    ("path element '.. '", ['C27'], 'escape:dotdot-with-trailing-blank'),
    ('CON, NUL, PRN and AUX were only recognised in upper case', ['C28'], 'name:device-alias-case'),
    ('accepted signed components and underscores', ['C44'], 'time:signed-or-underscore-component-accepted'),
    ('just below a power of two two units too low', ['C43'], 'float:single:error>1ulp:just-below-power-of-two'),
    ('loading an empty protected file', ['C01', 'C15'], 'internal:UnboundLocalError@basic/converter/protect.py:unprotect'),
    ('not in ascending order corrupted the line index', ['C01'], 'internal:ValueError@basic/program.py:list_lines'),
    ('&h8F inside a string literal', ['C15'], 'load:tokenised:byte-8F-inside-a-string-literal-is-scanned-as-REM'),
    ('protecting an empty byte stream', ['C15'], 'internal:UnboundLocalError@basic/converter/protect.py:protect:empty-input'),
    ('after ? following THEN or ELSE', ['C17'], 'roundtrip:directed:question-mark-print-after-then-keeps-line-number-mode'),
    ('STEP 0 ended after one pass', ['C19'], 'for:zero-step:start-below-end:body-ran-once-then-loop-ended'),
    ('CLEAR inside a subroutine left the GOSUB stack', ['C23'], 'clear:gosub-stack-survives'),
    ('CHAIN ... ALL after defining a string DEF FN', ['C01', 'C23'], 'internal:ValueError@basic/memory/memory.py:_get_field_offset'),
    ('empty FOR loop closed by NEXT J,I', ['C19'], 'diverge-after:for:empty-skip:multi-next'),
    ('reported the Syntax error on the wrong line', ['C22'], 'read:non-numeric-item:error-not-reported-on-the-data-line-of-the-item'),
    ('FILES "@:" raised TypeError', ['C01'], 'internal:TypeError@basic/devices/disk.py:listdir'),
    ('elapsed while TIMER was OFF', ['C38'], 'trap:timer-interval-elapsed-while-off-fires-after-on'),
    ('interrupted between statements resumed after the last statement', ['C40'], 'resume:out-differs'),
    ('after a trapped error in an expression, Break/CONT', ['C40'], 'resume:out-differs'),
    ('FOR counter stepping beyond the largest number', ['C01'], 'internal:OverflowError@basic/values/numbers.py:_check_limits'),
    ('empty FOR loop raised Overflow when start plus step', ['C19'], 'diverge-after:for:empty-skip:start-plus-step-beyond-integer-range'),
    ('just before a THEN or ELSE clause skipped', ['C40'], 'resume:out-differs'),
    ('open for APPEND got a stray end-of-file byte', ['C40'], 'resume:files-differs'),
    ('scrolling text down dropped the wrong row', ['C35'], 'display:text:after-scroll'),
    ('PCOPY made the copied page share', ['C35'], 'display:text:changed-without-signal'),
    ('LOCATE to the last column after printing', ['C36'], 'locate:not-at-requested-cell:from-last-column-state'),
    ('narrower screen with KEY ON', ['C01', 'C35', 'C36'], 'internal:IndexError@basic/display/buffers.py:get_charwidth'),
    ('colour plane number as attribute bit', ['C34'], 'roundtrip:save-wipe-restore:planar'),
    ('quoted string of 255 characters left the closing quote', ['C24'], 'input:quoted-field-of-255-chars:closing-quote-left-unread'),
    ('quoted string starting with CR LF lost the LF', ['C24'], 'input:quoted-field-starting-with-CRLF:LF-lost'),
    ('every later cassette request gave File already open', ['C29'], 'search:device-left-open-after-failed-search'),
    ('skipped cassette file could be taken for a file header', ['C29'], 'search:contents-of-skipped-file-reported-as-phantom-file'),
    ('BLOAD dropped the last byte of a memory image', ['C29'], 'read:memory-image:final-byte-1A-not-loaded'),
    ('SCREEN 9 on a 64K EGA', ['C34'], 'write:pixel-attribute-out-of-range:planar'),
    ('one decimal too many when rounding', ['C08'], 'using:fixed:decimals'),
    ('unsigned conversions of numbers below -32768', ['C01'], 'internal:error@basic/values/numbers.py:from_int'),
]
FIXES.append(('row below the scroll area blanked that row', ['C35'], 'display:text:after-scroll-with-reversed-rows'))
FIXES.append(('CHAIN MERGE of a tokenised or protected file', ['C01', 'C27'], 'internal:AttributeError@basic/program.py:merge'))
FIXES.append(('CIRCLE with a pie-slice line on a small radius', ['C01', 'C30'], 'internal:UnboundLocalError@basic/display/graphics.py:_draw_circle'))
FIXES.append(('tiled PAINT with an all-zero tile row', ['C30'], 'hang:statement-exceeded-cpu-budget:PAINT-TILE'))
FIXES.append(('block starting above the end of video memory', ['C01'], 'internal:ValueError@basic/display/framebuffer.py:get_memory'))
FIXES.append(('PALETTE USING with a negative or out-of-range', ['C01'], 'internal:error@basic/display/display.py:palette_using_'))
FIXES.append(('OUT &h3CF or &h3C5 in a text mode', ['C01'], 'internal:AttributeError@basic/machine.py:out_'))
FIXES.append(('LPT2: or LPT3: with nothing attached', ['C01'], 'internal:AttributeError@basic/devices/parports.py:do_print'))
FIXES.append(('octal literal interrupted by a blank', ['C01'], 'internal:ValueError@basic/values/numbers.py:from_oct'))
FIXES.append(('element of any array but the last one read the last array', ['C42', 'C33'], 'play:varptr-array-element-reference-rejected'))
FIXES.append(('suspended while a continuous SOUND was playing could not be resumed', ['C40'], 'internal:TypeError@basic/sound.py:<genexpr>'))
FIXES.append(('changing only the attribute of half a double-byte character', ['C35'], 'display:pixels:after-update:dbcs'))
FIXES.append(('cursor-right from the last column left the pending-wrap flag', ['C36'], 'cursor:next-character-not-at-reported-position:after-control-code'))
FIXES.append(('cursor-right from the last column left the pending-wrap flag', ['C36'], 'cursor:next-character-not-at-reported-position:after-unmodelled-output'))
FIXES.append(('a failed CHAIN left string garbage collection switched off', ['C10'], 'oss:raised-although-space-sufficient'))
FIXES.append(('a failed CHAIN left string garbage collection switched off', ['C23'], 'chain-fails:string-churn-after-failed-chain-does-not-complete'))
FIXES.append(('RESUME NEXT re-ran the failing statement when blanks preceded its colon', ['C21', 'C22'], 'diverge-after:resume:next'))
FIXES.append(('POINT beyond the screen edge with a relative VIEW', ['C01'], 'internal:IndexError@basic/base/bytematrix.py:__getitem__'))
FIXES.append(('set_variable of a new string array could lose elements', ['C43'], 'pressure:new-string-array:internal:KeyError@basic/values/strings.py:_retrieve'))
FIXES.append(('reference pointing beyond the last array raised KeyError', ['C01', 'C42'], 'internal:KeyError@basic/values/values.py:from_bytes'))
