#!/bin/sh
# tools/seedtest.sh <dir with patch.diff demo.py meta.json> [check ids...]
# Confirms a seeded breaking change (applies to HEAD, pinned tests still pass, demo passes without and
# fails with it) in a scratch worktree outside /repo and /verif, then runs the given checks (default:
# the property named in meta.json) against it.  Prints one summary line; removes the worktree.
here="$(cd "$(dirname "$0")/.." && pwd)"
d="$(cd "$1" && pwd)"; shift
prop=$(python3 -c "import json,sys; print(json.load(open('$d/meta.json'))['property'])")
ids="$*"; [ -z "$ids" ] && ids="$prop"
wt=$(mktemp -d /tmp/seedwt_XXXXXX); rmdir "$wt"
git -C /repo worktree add -q --detach "$wt" HEAD || exit 3
res="seed=$(basename "$d") property=$prop"
# demo on the clean tree
PYTHONPATH="$wt" /venv/bin/python -B "$d/demo.py" > "$wt/.demo_clean.log" 2>&1; res="$res demo_clean_rc=$?"
if git -C "$wt" apply "$d/patch.diff" 2> "$wt/.apply.log"; then
  res="$res applies=yes"
  PYTHONPATH="$wt" /venv/bin/python -B "$d/demo.py" > "$wt/.demo_patched.log" 2>&1; res="$res demo_patched_rc=$?"
  if [ -z "$SEED_SKIP_TESTS" ]; then
    out=$(mktemp /tmp/seed_junit_XXXX.xml)
    (cd "$wt" && /venv/bin/python -m pytest -ra -q -p no:cacheprovider --timeout=900 --continue-on-collection-errors --junitxml="$out" > /dev/null 2>&1)
    npass=$(python3 - "$out" <<'PY'
import sys, json, xml.etree.ElementTree as ET
base = set(json.load(open('/root/.vp/BASELINE.json'))['stable_pass'])
passed = set()
for tc in ET.parse(sys.argv[1]).getroot().iter('testcase'):
    if not any(ch.tag in ('failure', 'error', 'skipped') for ch in tc):
        passed.add('%s::%s' % (tc.get('classname'), tc.get('name')))
print('%d/%d' % (len(base & passed), len(base)))
PY
)
    rm -f "$out"
    res="$res pinned_tests=$npass"
  fi
  for id in $ids; do
    VERIF_NO_EVIDENCE=1 VERIF_REPO="$wt" "$here/check" "$id" quick > "$here/scratch/seed_$(basename "$d")_$id.log" 2>&1
    rc=$?
    keys=$(grep '^  key=' "$here/scratch/seed_$(basename "$d")_$id.log" | sed 's/^  key=\([^ ]*\) .*/\1/' | tr '\n' ',' | cut -c1-300)
    res="$res | $id rc=$rc keys=$keys"
  done
else
  res="$res applies=NO"
fi
git -C /repo worktree remove --force "$wt"
echo "$res"
