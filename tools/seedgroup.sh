#!/bin/sh
# tools/seedgroup.sh <outdir> : run seedtest for every property dir in an agent's output directory
here="$(cd "$(dirname "$0")/.." && pwd)"; cd "$here"; mkdir -p scratch
for d in "$1"/C*/; do
  [ -f "$d/patch.diff" ] || continue
  VERIF_JOBS=${VERIF_JOBS:-6} tools/seedtest.sh "$d" >> scratch/${SEED_RESULTS:-seed_results.txt} 2>&1
done
