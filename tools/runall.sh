#!/bin/sh
# run every claimed check (or the ids given) in one tier; print one status line per check
# usage: tools/runall.sh quick|thorough [ids...]
here="$(cd "$(dirname "$0")/.." && pwd)"
cd "$here" || exit 3
tier="${1:-quick}"; shift
ids="$*"
[ -z "$ids" ] && ids="$(cat vf/enabled.txt)"
rc_all=0
mkdir -p scratch
for id in $ids; do
  start=$(date +%s)
  ./check "$id" "$tier" > "scratch/$id.$tier.log" 2>&1
  rc=$?
  end=$(date +%s)
  kf=$(grep -c '^KNOWN-FINDING' "scratch/$id.$tier.log")
  echo "$id $tier rc=$rc $((end-start))s known=$kf $(grep -m1 -E '^(VIOLATION|INCONCLUSIVE)' "scratch/$id.$tier.log" | cut -c1-150)"
  [ $rc -ne 0 ] && rc_all=1
done
exit $rc_all
