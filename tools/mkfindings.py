#!/usr/bin/env python3
"""
Regenerate known_findings.json (run by hand after landing a fix or deciding on an open finding;
never run by a check).  open entries: OPEN below.  fixed entries: tools/fixes_table.py matched
against `git -C /repo log`.
"""
import json
import os
import subprocess
import sys

HERE = os.path.dirname(os.path.dirname(os.path.abspath(__file__)))
sys.path.insert(0, os.path.join(HERE, 'tools'))
from fixes_table import FIXES  # noqa: E402

NOT_REPAIRED = 'Not repaired: pcbasic reproduces GW-BASIC here, a repair would break compatibility. '

OPEN = [
    ('C02', 'bitwise-operand-32768..65535-raises-overflow',
     'AND/OR/XOR/EQV/IMP/NOT raise Overflow for an operand in 32768..65535 (PRINT 40000 AND 1) although the statement '
     'says operands up to 65535 are accepted. ' + NOT_REPAIRED + '(D-S1)'),
    ('C02', 'mod:quotient-leaves-range:remainder-returned-instead-of-overflow',
     '-32768 MOD -1 returns 0 although the statement says MOD raises Overflow when the quotient leaves -32768..32767 '
     '(the one pair where it does). Not repaired: neither the documentation nor the test corpus pins what GW-BASIC does '
     'for this pair, and the remainder itself is representable; raising Overflow instead could break working programs.'),
    ('C18', 'int-arith-result-is-single',
     'integer + - * and unary minus return a single of equal value (statement: widest operand type). ' + NOT_REPAIRED + '(D-S2)'),
    ('C18', 'pow-double-operand-result-is-single',
     'with the default double=False, ^ with a double operand returns a single (statement: widest operand type). ' + NOT_REPAIRED),
    ('C16', 'disclosure:READ-in-direct-mode',
     'after RUN of a protected program a direct READ returns its unread DATA items. ' + NOT_REPAIRED),
    ('C16', 'disclosure:DATA-read-by-program-entered-from-direct-mode',
     'a direct GOTO into a protected program makes its own READ/PRINT show DATA items it never reads in a normal run. ' + NOT_REPAIRED),
    ('C42', 'play:frequency-one-semitone-below-formula',
     'PLAY emits 440*2^((n-34)/12) for note number n as the statement defines n, one semitone below the statement\'s '
     'closed formula, uniformly for all notes (O2 A = 440 Hz as in GW-BASIC). ' + NOT_REPAIRED + '(D-S3)'),
    ('C42', 'play:multivoice-frequency-below-110Hz-played-as-110Hz',
     'with Tandy/PCjr multi-voice sound every tone below 110 Hz is played at 110 Hz (hardware limit emulated on purpose). '
     + NOT_REPAIRED),
    ('C39', 'randomize:reseed-keeps-low-byte-of-previous-seed',
     'RANDOMIZE n keeps the low byte of the previous seed, so the sequence after RANDOMIZE with the same argument depends on '
     'how many numbers were drawn before (CLEAR:RANDOMIZE 1:PRINT RND gives .4098261, CLEAR:X=RND:RANDOMIZE 1:PRINT RND '
     'gives .6832075). ' + NOT_REPAIRED + '(tests/basic/unsorted/RANDOMIZ records this GW-BASIC behaviour)'),
    ('C13', 'renum:line-entered-as-0-lists-with-extra-blank',
     'a line entered as line number 0 keeps the blank after the number; after RENUM it lists with two blanks. ' + NOT_REPAIRED),
    ('C15', 'load:disk-or-bound:B:eof-byte-of-the-file-kept-in-program-memory',
     'LOAD of a tokenised disk file keeps the file\'s ^Z in program memory, so memory after SAVE+LOAD is one byte longer. '
     'Not repaired: the pinned test tests/unit/test_main.py::test_tokenised_to_protected asserts this quirk.'),
    ('C24', 'line-input:line-of-255-chars:terminator-left-unread',
     'LINE INPUT# of a 255-character line leaves its CR unread, so the next LINE INPUT# returns an empty line. ' + NOT_REPAIRED
     + '(tests/basic/unsorted/LongLineInputCR)'),
    ('C26', 'open:file-open-for-output-or-append-opened-again-for-input-or-random',
     'a file open for OUTPUT/APPEND can be opened again for INPUT or RANDOM (only a second OUTPUT/APPEND is refused). '
     + NOT_REPAIRED + '(tests/basic/unsorted/LockFilesOutput, recorded from GW-BASIC 3.23)'),
    ('C26', 'access:get-inside-lock-held-through-output-or-append-number-accepted',
     'GET inside a range locked through a file number opened for OUTPUT/APPEND succeeds. ' + NOT_REPAIRED
     + '(tests/basic/unsorted/LockFilesOutput)'),
]
# C07: reading decimal text with more digits than the mantissa holds (GW-BASIC's own algorithm truncates)
for _t, _bits in (('single', 24), ('double', 56)):
    for _e in ('err-1..2', 'err-2..4'):
        for _d in ('scale-up', 'scale-down'):
            OPEN.append(('C07', 'read:%s:error>=1ulp:%s:mantissa>%dbit:%s' % (_t, _e, _bits, _d),
                         'decimal text whose digit string exceeds the %d-bit mantissa is read with an error of 1 to ~2.3 units '
                         'in the last place (statement: < 1), e.g. VAL("2000000.00000000") = 1999999.875. Not repaired: '
                         'pcbasic reproduces GW-BASIC\'s own conversion algorithm (truncating from_int, repeated *10 / /10).' % _bits))


def main():
    log = subprocess.check_output(['git', '-C', os.environ.get('VERIF_REPO', '/repo'), 'log', '--format=%h %s']).decode()
    commits = [l.split(' ', 1) for l in log.splitlines() if ' fix: ' in ' ' + l]
    findings = []
    for prop, key, what in OPEN:
        findings.append({'property': prop, 'key': key, 'status': 'open', 'what': what})
    unmatched = []
    for frag, props, key in FIXES:
        hit = [(h, s) for h, s in commits if frag in s]
        if not hit:
            unmatched.append(frag)
            continue
        h, s = hit[0]
        for prop in props:
            findings.append({
                'property': prop, 'key': key, 'status': 'fixed', 'commit': h,
                'what': 'fixed: property=%s %s %s' % (prop, h, s[len('fix: '):]),
            })
    covered = set()
    for frag, _, _ in FIXES:
        for h, s in commits:
            if frag in s:
                covered.add(h)
    missing = [(h, s) for h, s in commits if h not in covered]
    data = {
        'comment': ('Committed list of genuine findings; never written at run time. open entries are matched by MECHANISM key '
                    'and reported as KNOWN-FINDING; fixed entries suppress nothing.'),
        'findings': findings,
    }
    with open(os.path.join(HERE, 'known_findings.json'), 'w') as f:
        json.dump(data, f, indent=1)
    print('%d open, %d fixed entries' % (len(OPEN), len(findings) - len(OPEN)))
    for m in unmatched:
        print('  table entry without commit:', m)
    for h, s in missing:
        print('  fix commit not in table:', h, s)


if __name__ == '__main__':
    main()
