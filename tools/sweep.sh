#!/bin/sh
# tools/sweep.sh "<seeds>" ids...  : run quick tier for each id and seed, append one line per run to scratch/sweep.txt
here="$(cd "$(dirname "$0")/.." && pwd)"; cd "$here"; mkdir -p scratch
seeds="$1"; shift
for id in "$@"; do for s in $seeds; do
  st=$(date +%s)
  VERIF_SEED=$s VERIF_JOBS=${VERIF_JOBS:-6} ./check $id quick > scratch/$id.s$s.log 2>&1; rc=$?
  echo "$id seed=$s rc=$rc $(( $(date +%s) - st ))s $(grep -m1 -E '^(VIOLATION|INCONCLUSIVE)' scratch/$id.s$s.log | cut -c1-160)" >> scratch/sweep.txt
done; done
